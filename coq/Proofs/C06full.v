(* C06, generator clause, the values: every entry of every generated service passed (or passes) the load-time validation, so the
   generator's own text can always be read again.  NUL-freeness is carried from the unit files (a validated value has no NUL, nor has what
   unquoting or splitting it yields) through the name table (every service file name in it is NUL-free) to every value the generator stores. *)
From QV Require Import Model.Base Generated.Tables Model.Quote Model.Unquote Model.Split Model.PortRange Model.Unit Model.Lex Model.Parser
  Model.Path Model.Names Model.Convert Model.Process Spec.Layout Proofs.Util Proofs.C01 Proofs.C03 Proofs.C06 Proofs.C07 Proofs.C07run
  Proofs.C11 Proofs.C09 Proofs.C09run Proofs.C11run Proofs.C06shape.
Open Scope N_scope.
Local Notation L := s2l (only parsing).

(* ---- a validated raw value has no NUL ---- *)
Lemma uq_step_zero g q m res : uq_step g q m res 0 = None.
Proof. destruct m; cbn [uq_step]; try reflexivity. Qed.

Lemma uq_run_NZ cs : forall g q m res, uq_run g q m res cs <> None -> NZ cs.
Proof.
  induction cs as [|c cs IH]; intros g q m res H; [intros []|].
  cbn [uq_run] in H. destruct (uq_step g q m res c) as [[[q' m'] res']|] eqn:E; [|congruence].
  intros [X|X]; [subst c; rewrite uq_step_zero in E; discriminate|]. exact (IH _ _ _ _ H X).
Qed.

Lemma validated_raw_NZ raw : unquote_value raw <> None -> NZ raw.
Proof. unfold unquote_value. apply uq_run_NZ. Qed.

(* ---- look-ups of a validated unit yield NUL-free strings ---- *)
Lemma reset_fold_sub (vs : list str) : forall (acc : list str) (v : str), In v (fold_left (fun (res : list str) (v : str) => match v with [] => [] | _ => res ++ [v] end) vs acc) -> In v acc \/ In v vs.
Proof.
  induction vs as [|x vs IH]; intros acc v H; [left; exact H|]. cbn [fold_left] in H. destruct (IH _ _ H) as [H1|H1]; [|right; right; exact H1].
  destruct x as [|c x]; [destruct H1|]. apply in_app_or in H1. destruct H1 as [H1|[<-|[]]]; [left; exact H1|right; left; reflexivity].
Qed.

Lemma lookup_all_values_valid u sec k : Validated u -> Forall (fun raw => unquote_value raw <> None) (lookup_all_values u sec k).
Proof.
  intros Hu. apply Forall_forall. intros v Hv. unfold lookup_all_values, reset_fold in Hv. apply reset_fold_sub in Hv. destruct Hv as [[]|Hv].
  unfold values_raw in Hv. apply in_map_iff in Hv. destruct Hv as [e [<- He]]. apply filter_In in He.
  pose proof (validated_section u sec Hu) as Hs. rewrite Forall_forall in Hs. apply Hs. apply He.
Qed.

Lemma all_ok_NZ l : forall vs, all_ok (map unquote_or_panic l) = POk vs -> Forall NZ vs.
Proof.
  induction l as [|raw l IH]; intros vs H; cbn [map all_ok] in H; [injection H as <-; constructor|].
  unfold unquote_or_panic at 1 in H. destruct (unquote_value raw) as [s|] eqn:E; [|discriminate].
  destruct (all_ok (map unquote_or_panic l)) as [l'|] eqn:E2; [|discriminate]. injection H as <-. constructor; [|apply IH; reflexivity].
  eapply unquoted_values_have_no_nul. exact E.
Qed.

Lemma lk_all_NZ {E} u sec k vs : @lk_all E u sec k = COk vs -> Forall NZ vs.
Proof. unfold lk_all, lookup_all. destruct (all_ok _) as [l|] eqn:Ea; cbn [of_pres]; [|discriminate]. intros H. injection H as <-. eapply all_ok_NZ. exact Ea. Qed.

Lemma lk_NZ {E} u sec k v : @lk E u sec k = COk (Some v) -> NZ v.
Proof. intros H. apply lk_some_inv in H. destruct H as [raw [_ Hq]]. eapply unquoted_values_have_no_nul. exact Hq. Qed.

(* the word splitter keeps NUL-freeness: its characters are characters of the value, table escapes, or decoded code points other than 0 *)
Lemma word_simple_escape_NZ c r : word_simple_escape c = Some r -> r <> 0.
Proof.
  unfold word_simple_escape.
  assert (K : forallb (fun kv : N * list N => negb (str_eqb (snd kv) [0])) cm_split_parse_escape_sequence = true) by (vm_compute; reflexivity).
  revert K. generalize cm_split_parse_escape_sequence. induction l as [|[k v] t IHl]; intros K H; [discriminate|].
  cbn [forallb snd] in K. apply andb_true_iff in K. destruct K as [K1 K2]. cbn [assocN] in H.
  destruct (c =? k); [|exact (IHl K2 H)]. destruct v as [|v0 [|v1 vr]]; try discriminate. injection H as ->. intros ->. discriminate.
Qed.

Lemma code_to_char_NZ a r : code_to_char a = Some r -> r <> 0.
Proof. unfold code_to_char. destruct (N.eqb_spec a 0); [discriminate|]. destruct (is_scalar a); [|discriminate]. intros H. injection H as <-. assumption. Qed.

Lemma NZ_snoc s c : NZ s -> c <> 0 -> NZ (s ++ [c]).
Proof. intros Hs Hc X. apply in_app_or in X. destruct X as [X|[X|[]]]; [exact (Hs X)|congruence]. Qed.

Lemma word_step_NZ s acc c : c <> 0 -> NZ acc ->
  match word_step s acc c with WErr => True | WMore _ acc' => NZ acc' | WDone w => NZ w end.
Proof.
  intros Hc Ha. destruct s as [| |q|q|q n a|q n a]; cbn [word_step].
  - destruct (is_separator c); [exact Ha|]. unfold wplain_step. destruct (is_quote_char c); [exact Ha|]. destruct (c =? cBS); [exact Ha|].
    destruct (is_separator c); [exact Ha|apply NZ_snoc; assumption].
  - unfold wplain_step. destruct (is_quote_char c); [exact Ha|]. destruct (c =? cBS); [exact Ha|]. destruct (is_separator c); [exact Ha|apply NZ_snoc; assumption].
  - destruct (c =? q); [exact Ha|]. destruct (c =? cBS); [exact Ha|apply NZ_snoc; assumption].
  - destruct (word_simple_escape c) as [r|] eqn:E; [apply NZ_snoc; [exact Ha|eapply word_simple_escape_NZ; exact E]|].
    destruct (c =? 120); [exact Ha|]. destruct (c =? 117); [exact Ha|]. destruct (c =? 85); [exact Ha|]. destruct (is_octdigit c); [exact Ha|apply NZ_snoc; assumption].
  - destruct (hexval c) as [d|]; [|exact I]. destruct n as [|[|n']]; [exact I| |exact Ha].
    destruct (code_to_char (a * 16 + d)) as [r|] eqn:E; [|exact I]. apply NZ_snoc; [exact Ha|eapply code_to_char_NZ; exact E].
  - destruct (is_octdigit c); [|exact I]. destruct n as [|[|n']]; [exact I| |exact Ha].
    destruct (code_to_char (a * 8 + (c - 48))) as [r|] eqn:E; [|exact I]. apply NZ_snoc; [exact Ha|eapply code_to_char_NZ; exact E].
Qed.

Lemma word_next_NZ cs : forall s acc w r, NZ cs -> NZ acc -> word_next s acc cs = Some (Some (w, r)) -> NZ w /\ NZ r.
Proof.
  induction cs as [|c cs IH]; intros s acc w r Hcs Ha H; cbn [word_next] in H.
  - destruct (wfinish s acc) as [[w'|]|] eqn:E; try discriminate. injection H as <- <-. split; [|intros []].
    destruct s; cbn [wfinish] in E; try discriminate; injection E as <-; exact Ha.
  - assert (Hc : c <> 0) by (intros ->; apply Hcs; left; reflexivity). assert (Hcs' : NZ cs) by (intros X; apply Hcs; right; exact X).
    pose proof (word_step_NZ s acc c Hc Ha) as Hst. destruct (word_step s acc c) as [|s' acc'|w']; [discriminate| |].
    + exact (IH _ _ _ _ Hcs' Hst H).
    + injection H as <- <-. split; assumption.
Qed.

Lemma split_word_fuel_NZ fixed f : forall cs, NZ cs -> Forall NZ (split_word_fuel fixed f cs).
Proof.
  induction f as [|f IH]; intros cs Hcs; cbn [split_word_fuel]; [constructor|].
  destruct (word_next WSkip [] cs) as [[[w r]|]|] eqn:E; try constructor.
  destruct (word_next_NZ cs WSkip [] w r Hcs (fun X => X) E) as [Hw Hr].
  destruct (negb fixed && _); [constructor|]. constructor; [exact Hw|apply IH; exact Hr].
Qed.

Lemma lookup_all_args_NZ u sec k : Validated u -> Forall NZ (lookup_all_args u sec k).
Proof.
  intros Hu. unfold lookup_all_args. apply Forall_forall. intros w Hw. apply in_flat_map in Hw. destruct Hw as [raw [Hr Hw]].
  pose proof (lookup_all_values_valid u sec k Hu) as Hv. rewrite Forall_forall in Hv.
  pose proof (split_word_fuel_NZ true (S (length raw)) raw (validated_raw_NZ raw (Hv raw Hr))) as Hs. rewrite Forall_forall in Hs. exact (Hs w Hw).
Qed.

(* ---- names are NUL-free ---- *)
Lemma file_name_NZ p n : NZ p -> file_name p = Some n -> NZ n.
Proof.
  intros Hp. unfold file_name. pose proof (components_NZ p Hp) as Hc. destruct (rev (components p)) as [|[| | |s] r] eqn:E; try discriminate.
  intros H. injection H as <-. rewrite Forall_forall in Hc. apply (Hc (CNormal s)). apply in_rev. rewrite E. left. reflexivity.
Qed.

Lemma sfn_NZ i : NZ (i_service_name i) -> NZ (service_file_name i).
Proof.
  intros H. unfold service_file_name. destruct (file_name (i_service_name i ++ L ".service")) as [n|] eqn:E; [|intros []].
  eapply file_name_NZ; [|exact E]. apply NZ_app; [exact H|nz].
Qed.

Lemma rsplit_dot_NZ s : forall a b, rsplit_dot s = Some (a, b) -> NZ s -> NZ a.
Proof.
  induction s as [|c s IH]; intros a b H Hs; [discriminate|]. cbn [rsplit_dot] in H.
  destruct (rsplit_dot s) as [[a' b']|] eqn:E.
  - injection H as <- <-. apply NZ_cons; [intros ->; apply Hs; left; reflexivity|]. eapply IH; [reflexivity|]. eapply NZ_tail. exact Hs.
  - destruct (c =? cDOT); [|discriminate]. injection H as <- <-. intros [].
Qed.

Lemma file_stem_NZ p st : NZ p -> file_stem p = Some st -> NZ st.
Proof.
  intros Hp. unfold file_stem. destruct (file_name p) as [n|] eqn:E; [|discriminate]. cbn [option_map]. intros H. injection H as <-.
  pose proof (file_name_NZ p n Hp E) as Hn. unfold stem_ext. destruct (str_eqb n dotdot); [exact Hn|].
  destruct (rsplit_dot n) as [[[|a0 a] b]|] eqn:Er; cbn [fst]; try exact Hn. eapply rsplit_dot_NZ; [exact Er|exact Hn].
Qed.

Lemma set_file_name_NZ p name : NZ p -> NZ name -> NZ (set_file_name p name).
Proof.
  intros Hp Hn. unfold set_file_name. destruct (file_name p); [|apply path_join_NZ; assumption].
  destruct (parent p) as [d|] eqn:E; [|exact Hn]. apply path_join_NZ; [exact (parent_NZ _ _ Hp E)|exact Hn].
Qed.

Lemma service_name_of_NZ u path t sn : NZ path -> @service_name_of berr u path t = COk sn -> NZ sn.
Proof.
  intros Hp. unfold service_name_of. bel. intros o Ho. destruct o as [n|]; [intros H; injection H as <-; eapply lk_NZ; exact Ho|].
  destruct (file_name path) as [fname|] eqn:E; [|discriminate]. unfold replace_extension. destruct (file_stem fname) as [st|] eqn:Es; [|discriminate].
  intros H. injection H as <-. pose proof (file_name_NZ _ _ Hp E) as Hf. apply set_file_name_NZ; [exact Hf|].
  cbn [app]. apply NZ_app; [exact (file_stem_NZ _ _ Hf Es)|destruct t; nz].
Qed.

Lemma unit_info_NZ u path i : NZ path -> unit_info u path = COk i -> NZ (service_file_name i) /\ i_containers i = [].
Proof.
  intros Hp. unfold unit_info. destruct (type_of_path path) as [t|]; [|discriminate]. bel. intros sn Hsn. bel. intros rn _. intros H. injection H as <-.
  split; [|reflexivity]. apply sfn_NZ. cbn [i_service_name]. eapply service_name_of_NZ; eassumption.
Qed.

(* ---- the name table: every service file name in it, and every registered container, is NUL-free ---- *)
Definition TNZ (tbl : table) : Prop := (forall P s, sfile tbl P = Some s -> NZ s) /\ (forall P, Forall NZ (conts tbl P)).

Lemma TNZ_get tbl n i : TNZ tbl -> tbl_get tbl n = Some i -> NZ (service_file_name i) /\ Forall NZ (i_containers i).
Proof.
  intros [H1 H2] Hg. split.
  - apply (H1 n). unfold sfile. rewrite Hg. reflexivity.
  - specialize (H2 n). unfold conts in H2. rewrite Hg in H2. exact H2.
Qed.

(* ---- unit operations keep validity ---- *)
Lemma validated_set_entry u sec k raw : unquote_value raw <> None -> Validated u -> Validated (set_entry u sec k raw).
Proof.
  intros Hr Hu. induction Hu as [|[n es] r Hs Hr' IH]; cbn [set_entry].
  - constructor; [|constructor]. cbn [snd]. constructor; [exact Hr|constructor].
  - destruct (str_eqb sec n).
    + constructor; [|exact Hr']. cbn [snd] in *. unfold set_in. apply Forall_app. split; [apply Forall_filter; exact Hs|].
      apply Forall_app. split; [apply Forall_removelast, Forall_filter; exact Hs|]. constructor; [exact Hr|constructor].
    + constructor; [exact Hs|exact IH].
Qed.

Lemma validated_unit_set u sec k v : NZ v -> Validated u -> Validated (unit_set u sec k v).
Proof. intros Hv H. apply validated_set_entry; [apply quote_value_reads_back; exact Hv|exact H]. Qed.

Lemma validated_add_raw_exec svc k args svc' : Validated svc -> add_raw_exec svc k args = COk svc' -> Validated svc'.
Proof.
  intros H. unfold add_raw_exec, unit_add_raw. destruct (unquote_value (quote_words args)) eqn:E; [|discriminate].
  intros X. injection X as <-. apply validated_add_entry; [exact H|congruence].
Qed.

Ltac vd :=
  repeat first
    [ assumption
    | apply validated_unit_add; [first [assumption|nz]|]
    | apply validated_unit_set; [first [assumption|nz]|]
    | apply validated_prepend; [first [assumption|nz]|]
    | match goal with
      | |- Validated (if ?b then _ else _) => destruct b
      | |- Validated (match ?x with _ => _ end) => destruct x
      end ].

(* ---- handlers ---- *)
Section HandlersV.
Variable tbl : table.
Hypothesis Ht : TNZ tbl.

Lemma V_image_source n svc x svc' : handle_image_source n svc tbl = COk (x, svc') -> Validated svc -> Validated svc'.
Proof.
  unfold handle_image_source. intros H Hs. destruct (_ || _).
  - destruct (tbl_get tbl n) as [i|] eqn:Eg; [|discriminate]. destruct (TNZ_get _ _ _ Ht Eg) as [Hn _]. injection H as _ <-. vd.
  - injection H as _ <-. exact Hs.
Qed.

Lemma V_networks_loop nets : forall svc args a svc', networks_loop nets svc tbl args = COk (a, svc') -> Validated svc -> Validated svc'.
Proof.
  induction nets as [|net r IH]; intros svc args a svc'; cbn [networks_loop]; [intros H Hs; injection H as _ <-; exact Hs|].
  destruct net as [|c0 net]; [apply IH|].
  destruct (match split_once cCOLON (c0 :: net) with Some (a0, b) => (a0, Some b) | None => (c0 :: net, None) end) as [name opts].
  cbv zeta. bel. intros [rname svc1] H1 H2 Hs.
  assert (V1 : Validated svc1).
  { destruct (_ || _).
    - destruct (tbl_get tbl name) as [i|] eqn:Eg; [|discriminate]. destruct (TNZ_get _ _ _ Ht Eg) as [Hn _].
      destruct (i_resource_name i); [discriminate|]. injection H1 as _ <-. vd.
    - injection H1 as _ <-. exact Hs. }
  destruct opts as [o|].
  - destruct (ends_with (L ".container") name); [discriminate|]. eapply IH; eassumption.
  - eapply IH; eassumption.
Qed.

Lemma V_networks u sec svc args a svc' : handle_networks u sec svc tbl args = COk (a, svc') -> Validated svc -> Validated svc'.
Proof. unfold handle_networks. bel. intros nets _. apply V_networks_loop. Qed.

Lemma V_storage up svc src ci x svc' : NZ up -> NZ src -> handle_storage_source up svc src tbl ci = COk (x, svc') -> Validated svc -> Validated svc'.
Proof.
  intros Hup Hsrc. unfold handle_storage_source. bel. intros s Hs0. intros H Hs.
  assert (Hsn : NZ s).
  { destruct (starts_with [cDOT] src); [|injection Hs0 as <-; exact Hsrc]. unfold abs_from_unit in Hs0.
    destruct (absolute_from_unit src up) as [r|] eqn:E; [|discriminate]. injection Hs0 as <-. exact (absolute_from_unit_NZ _ _ _ Hsrc Hup E). }
  destruct (starts_with [cSLASH] s).
  - injection H as _ <-. vd.
  - destruct (_ || _).
    + destruct (tbl_get tbl s) as [i|] eqn:Eg; [|discriminate]. destruct (TNZ_get _ _ _ Ht Eg) as [Hn _]. injection H as _ <-. vd.
    + injection H as _ <-. exact Hs.
Qed.

Lemma V_volumes_loop pinned up vols : NZ up -> Forall NZ vols -> forall svc args a svc', volumes_loop pinned up vols svc tbl args = COk (a, svc') -> Validated svc -> Validated svc'.
Proof.
  intros Hup Hv. induction Hv as [|v r Hv Hr IH]; intros svc args a svc'; cbn [volumes_loop]; [intros H Hs; injection H as _ <-; exact Hs|].
  pose proof (split_on_NZ cCOLON v Hv) as Hparts.
  destruct (match split_on cCOLON v with
            | [] => ([], [], [])
            | [d] => ([], d, [])
            | s :: d :: rest => (s, d, match rest with [] => [] | o :: more => cCOLON :: (if pinned then o else join [cCOLON] (o :: more)) end)
            end) as [[source dest] options] eqn:Es.
  assert (Hsrc : NZ source).
  { destruct (split_on cCOLON v) as [|p0 [|p1 rest]]; injection Es as <- _ _; try (intros []). inversion Hparts; assumption. }
  destruct source as [|s0 source]; [apply IH|].
  bel. intros [src svc1] H1 H2 Hs. eapply IH; [exact H2|]. eapply V_storage; [exact Hup|exact Hsrc|exact H1|exact Hs].
Qed.

Lemma V_volumes pinned u up sec svc args a svc' : NZ up -> handle_volumes pinned u up sec svc tbl args = COk (a, svc') -> Validated svc -> Validated svc'.
Proof. intros Hup. unfold handle_volumes. bel. intros vols Hv. apply V_volumes_loop; [exact Hup|eapply lk_all_NZ; exact Hv]. Qed.

Lemma split_once_NZ sep s a b : NZ s -> split_once sep s = Some (a, b) -> NZ a /\ NZ b.
Proof.
  revert a b. induction s as [|c s IH]; intros a b Hs H; [discriminate|]. cbn [split_once] in H.
  assert (Hc : c <> 0) by (intros ->; apply Hs; left; reflexivity). pose proof (NZ_tail _ _ Hs) as Ht'.
  destruct (c =? sep); [injection H as <- <-; split; [intros []|exact Ht']|].
  destruct (split_once sep s) as [[a' b']|] eqn:E; [|discriminate]. injection H as <- <-. destruct (IH _ _ Ht' eq_refl) as [Ha Hb].
  split; [apply NZ_cons; assumption|exact Hb].
Qed.

Lemma V_mount_tokens up tokens : NZ up -> Forall NZ tokens -> forall svc acc o svc', mount_tokens up tokens svc tbl acc = COk (o, svc') -> Validated svc -> Validated svc'.
Proof.
  intros Hup Ht'. induction Ht' as [|t r Htk Hr IH]; intros svc acc o svc'; cbn [mount_tokens]; [intros H Hs; injection H as _ <-; exact Hs|].
  destruct (_ || _); [|apply IH]. destruct (split_once cEQ t) as [[k v]|] eqn:E; [|discriminate].
  destruct (split_once_NZ _ _ _ _ Htk E) as [_ Hv].
  bel. intros [src svc1] H1 H2 Hs. eapply IH; [exact H2|]. eapply V_storage; [exact Hup|exact Hv|exact H1|exact Hs].
Qed.

Lemma find_type_NZ fields : Forall NZ fields -> forall found tokens, Forall NZ tokens -> Forall NZ (snd (find_type fields found tokens)).
Proof.
  induction 1 as [|f r Hf Hr IH]; intros found tokens Ht'; cbn [find_type]; [exact Ht'|].
  assert (Hsn : Forall NZ (tokens ++ [f])) by (apply Forall_app; split; [exact Ht'|constructor; [exact Hf|constructor]]).
  destruct found; [apply IH; exact Hsn|]. destruct (split_once cEQ f) as [[k v]|]; [|apply IH; exact Hsn].
  destruct (_ && _); apply IH; assumption.
Qed.

Lemma V_resolve_mount nl up m svc x svc' : NZ up -> NZ m -> resolve_mount nl up m svc tbl = COk (x, svc') -> Validated svc -> Validated svc'.
Proof.
  intros Hup Hm. unfold resolve_mount. destruct (negb (csv_plain m)); [discriminate|]. destruct m as [|c0 m]; [discriminate|].
  pose proof (find_type_NZ _ (split_on_NZ cCOMMA _ Hm) None [] (Forall_nil _)) as Hft.
  destruct (find_type _ _ _) as [[ty|] tokens]; [|discriminate]. cbn [snd] in Hft.
  destruct (negb _); [intros H Hs; injection H as _ <-; exact Hs|].
  bel. intros [out svc1] H1. destruct (existsb _ out); [discriminate|]. intros H Hs. injection H as _ <-. eapply V_mount_tokens; [exact Hup|exact Hft|exact H1|exact Hs].
Qed.

Lemma V_mounts_loop nl up ms : NZ up -> Forall NZ ms -> forall svc args a svc', mounts_loop nl up ms svc tbl args = COk (a, svc') -> Validated svc -> Validated svc'.
Proof.
  intros Hup Hm. induction Hm as [|m r Hm Hr IH]; intros svc args a svc'; cbn [mounts_loop]; [intros H Hs; injection H as _ <-; exact Hs|].
  bel. intros [s svc1] H1 H2 Hs. eapply IH; [exact H2|]. eapply V_resolve_mount; [exact Hup|exact Hm|exact H1|exact Hs].
Qed.

Lemma V_pod u sec svc sp args a svc' t' : handle_pod u sec svc sp tbl args = COk (a, svc', t') -> Validated svc -> Validated svc'.
Proof.
  unfold handle_pod. bel. intros pod _. destruct pod as [[|c p]|]; try (intros H Hs; injection H as _ <- _; exact Hs).
  destruct (negb _); [discriminate|]. destruct (tbl_get tbl (c :: p)) as [i|] eqn:Eg; [|discriminate]. destruct (TNZ_get _ _ _ Ht Eg) as [Hn _].
  intros H Hs. injection H as _ <- _. vd.
Qed.
End HandlersV.

Lemma V_hswd u up svc t c svc' : NZ up -> handle_set_working_directory u up svc t = COk (c, svc') -> Validated svc -> Validated svc'.
Proof.
  intros Hup. unfold handle_set_working_directory. cbv zeta. bel. intros swd Hswd.
  destruct swd as [[|c0 w]|]; try (intros H Hs; injection H as _ <-; exact Hs).
  bel. intros [ctx rel] Hrel. destruct rel as [|r0 rel]; [intros H Hs; injection H as _ <-; exact Hs|].
  destruct (is_url ctx); [intros H Hs; injection H as _ <-; exact Hs|].
  bel. intros wd _.
  assert (Hr : NZ (r0 :: rel)).
  { pose proof (lk_NZ _ _ _ _ Hswd) as Hw. revert Hrel.
    destruct (str_eqb (to_lower (c0 :: w)) (L "yaml")).
    - destruct t; try discriminate. bel. intros y Hy. destruct y as [y|]; [|discriminate]. intros H. injection H as _ <-. eapply lk_NZ. exact Hy.
    - destruct (str_eqb (to_lower (c0 :: w)) (L "file")).
      + destruct t; try discriminate. bel. intros fl Hfl. destruct fl as [fl|]; [|discriminate]. intros H. injection H as _ <-. eapply lk_NZ. exact Hfl.
      + destruct (str_eqb (to_lower (c0 :: w)) (L "unit")); [intros H; injection H as _ <-; exact Hup|].
        destruct t; try discriminate. destruct (is_absolute (c0 :: w)); intros H; [discriminate H|]. injection H as _ <-. exact Hup. }
  assert (G : forall fpath, abs_from_unit (r0 :: rel) up = COk fpath -> NZ (match parent fpath with Some d => d | None => fpath end)).
  { intros fpath Hf. unfold abs_from_unit in Hf. destruct (absolute_from_unit (r0 :: rel) up) as [a|] eqn:Ea; [|discriminate]. injection Hf as <-.
    pose proof (absolute_from_unit_NZ _ _ _ Hr Hup Ea) as Ha. destruct (parent a) as [d|] eqn:Ed; [eapply parent_NZ; eassumption|exact Ha]. }
  destruct wd as [[|w0 wd]|].
  1,3: bel; intros fpath Hfp H Hs; injection H as _ <-; apply validated_unit_add; [apply G; exact Hfp|exact Hs].
  intros H Hs; injection H as _ <-; exact Hs.
Qed.

Lemma V_set_if_absent svc k v s' : NZ v -> set_if_absent svc k v = COk s' -> Validated svc -> Validated s'.
Proof. intros Hv. unfold set_if_absent. bel. intros o _ X Hs. injection X as <-. destruct o; [exact Hs|]. apply validated_unit_set; assumption. Qed.

Lemma V_one_shot svc remain s' : one_shot_section svc remain = COk s' -> Validated svc -> Validated s'.
Proof.
  unfold one_shot_section. bel. intros s1 H1. bel. intros s2 H2. intros H3 Hs.
  assert (V2 : Validated s2).
  { eapply V_set_if_absent; [|exact H2|]; [nz|]. eapply V_set_if_absent; [|exact H1|exact Hs]. nz. }
  destruct remain; [eapply V_set_if_absent; [|exact H3|exact V2]; nz|injection H3 as <-; exact V2].
Qed.

(* ---- the converters ---- *)
Section ConvertersV.
Variables (podman : str) (exists_path : str -> bool) (kill_fixed mount_nl : bool).
Variable u : unit.
Hypothesis Hu : Validated u.
Variable path : str.
Hypothesis Hpath : NZ path.
Variable tbl : table.
Hypothesis Ht : TNZ tbl.

Lemma V_ct_service svc cn env base svc' : ct_service podman kill_fixed u path svc = COk (cn, env, base, svc') -> Validated svc -> Validated svc'.
Proof.
  unfold ct_service. cbv zeta. bel. intros cname _. bel. intros km _. bel. intros s1 H1. bel. intros b _. bel. intros s2 H2. bel. intros s3 H3.
  intros H Hs. injection H as _ _ _ <-.
  assert (V1 : Validated s1).
  { destruct km as [k|].
    - destruct (_ || _); [|discriminate]. injection H1 as <-. vd.
    - injection H1 as <-. vd. }
  eapply validated_add_raw_exec; [|exact H3]. eapply validated_add_raw_exec; [|exact H2]. vd.
Qed.

Lemma V_ct_run_head base cname svc a svc' : ct_run_head u base cname svc = COk (a, svc') -> Validated svc -> Validated svc'.
Proof.
  unfold ct_run_head. cbv zeta. bel. intros a1 _. bel. intros cg _. bel. intros a2 _. bel. intros a3 _. intros H Hs. injection H as _ <-. vd.
Qed.

Lemma V_ct_net_notify args svc a svc' : ct_net_notify u tbl args svc = COk (a, svc') -> Validated svc -> Validated svc'.
Proof.
  unfold ct_net_notify. cbv zeta. bel. intros [a1 s1] H1. bel. intros stype _. bel. intros [a2 s2] H2. bel. intros sysl _.
  intros H Hs. injection H as _ <-.
  assert (V1 : Validated s1) by (eapply V_networks; eassumption).
  assert (V2 : Validated s2).
  { assert (N : forall A, (do nt <- @lk berr u c_CONTAINER_SECTION (L "Notify");
                       (let a := match nt with
                                 | Some n => if str_eqb n (L "healthy") then A ++ [L "--sdnotify=healthy"]
                                             else if match lookup_bool u c_CONTAINER_SECTION (L "Notify") with Some b => b | None => false end
                                                  then A ++ [L "--sdnotify=container"] else A ++ [L "--sdnotify=conmon"]
                                 | None => A ++ [L "--sdnotify=conmon"]
                                 end in
                        COk (a ++ [L "-d"], unit_set (unit_set s1 SEC_S (L "Type") (L "notify")) SEC_S (L "NotifyAccess") (L "all")))) = COk (a2, s2) -> Validated s2).
    { intros A. bel. intros nt _. cbv zeta. intros X. injection X as _ <-. vd. }
    destruct stype as [ty|].
    - destruct (str_eqb ty (L "oneshot")); [injection H2 as _ <-; exact V1|]. destruct (str_eqb ty (L "notify")); [|discriminate]. eapply N. exact H2.
    - eapply N. exact H2. }
  vd.
Qed.

Theorem container_V svc sp t' : from_container podman exists_path kill_fixed mount_nl u path tbl = COk (svc, sp, t') -> Validated svc.
Proof.
  unfold from_container. cbv zeta. bel. intros [i svc0] Hp. intros R. apply lift_ok in R. revert R.
  pose proof (validated_rename_own _ TContainer (prologue_valid u Hu path Hpath _ _ _ _ _ Hp)) as V0.
  bel. intros image0 _. bel. intros rootfs0 _.
  set (image := match image0 with Some s => s | None => [] end). set (rootfs := match rootfs0 with Some s => s | None => [] end).
  clearbody image rootfs. destruct image as [|ci im], rootfs as [|d rf]; try discriminate.
  all: bel; intros [image1 s1] H1; bel; intros [[[cname penv] base] s2] H2; bel; intros [a3 s3] H3;
    bel; intros [a4 s4] H4; bel; intros a5 _; bel; intros [a6 s6] H6; bel; intros a7 _; bel; intros [a8 s8] H8;
    bel; intros a9 _; bel; intros [[a10 s10] tbl10] H10; intros R; apply with_tbl_ok in R; revert R;
    bel; intros s11 H11; intros E; injection E as <- _ _.
  all: assert (V1 : Validated s1) by (first [injection H1 as _ <-; exact V0 | eapply V_image_source; eassumption]).
  all: eapply validated_add_raw_exec; [|exact H11]. all: eapply V_pod; [exact Ht|exact H10|].
  all: eapply V_mounts_loop; [exact Ht|exact Hpath|apply lookup_all_args_NZ; exact Hu|exact H8|]. all: eapply V_volumes; [exact Ht|exact Hpath|exact H6|].
  all: eapply V_ct_net_notify; [exact H4|]. all: eapply V_ct_run_head; [exact H3|]. all: eapply V_ct_service; [exact H2|exact V1].
Qed.

Theorem image_V svc sp t' : from_image podman u path tbl = COk (svc, sp, t') -> Validated svc.
Proof.
  unfold from_image. bel. intros [i svc0] Hp. intros R. apply lift_ok in R. revert R. bel. intros s1 B1. bel. intros rn _.
  destruct (file_name path); [|discriminate]. intros E. injection E as <- _ _.
  pose proof (prologue_valid u Hu path Hpath _ _ _ _ _ Hp) as V0. revert B1. unfold image_body. bel. intros img _. destruct img as [[|c s]|]; try discriminate.
  cbv zeta. bel. intros base _. bel. intros a1 _. bel. intros s2 H2. intros H3.
  eapply V_one_shot; [exact H3|]. eapply validated_add_raw_exec; [|exact H2]. apply validated_unit_add; [nz|]. apply validated_rename_own. exact V0.
Qed.

Theorem network_V svc sp t' : from_network podman u path tbl = COk (svc, sp, t') -> Validated svc.
Proof.
  unfold from_network. bel. intros [i svc0] Hp. intros R. apply lift_ok in R. revert R. bel. intros nm _. bel. intros s1 B1.
  destruct (file_name path); [|discriminate]. intros E. injection E as <- _ _.
  pose proof (prologue_valid u Hu path Hpath _ _ _ _ _ Hp) as V0. revert B1. unfold network_body. cbv zeta.
  bel. intros base _. bel. intros a1 _. bel. intros a2 _. bel. intros sn _. bel. intros gw _. bel. intros rg _. bel. intros a3 _. bel. intros s2 H2. intros H3.
  eapply V_one_shot; [exact H3|]. eapply validated_add_raw_exec; [|exact H2]. apply validated_unit_add; [nz|]. apply validated_rename_own. exact V0.
Qed.

Theorem kube_V svc sp t' : from_kube podman kill_fixed u path tbl = COk (svc, sp, t') -> Validated svc.
Proof.
  unfold from_kube. cbv zeta. bel. intros [i svc0] Hp. intros R. apply lift_ok in R. revert R.
  pose proof (validated_rename_own _ TKube (prologue_valid u Hu path Hpath _ _ _ _ _ Hp)) as V0.
  bel. intros y _. destruct y as [[|c s]|]; try discriminate.
  bel. intros yaml _. bel. intros s1 H1.
  assert (V1 : Validated s1).
  { destruct kill_fixed.
    - revert H1. bel. intros km _. destruct km as [k|].
      + destruct (_ || _); [|discriminate]. intros H. injection H as <-. exact V0.
      + intros H. injection H as <-. vd.
    - injection H1 as <-. vd. }
  bel. intros ty _. bel. intros base _. bel. intros ecp _. bel. intros a1 _. bel. intros a2 _. bel. intros [a3 s3] H3. bel. intros cms _. bel. intros a4 _.
  bel. intros s4 H4. bel. intros base2 _. bel. intros s5 H5. bel. intros [cx s6] H6. intros E. injection E as <- _ _. cbn [snd].
  eapply V_hswd; [exact Hpath|exact H6|]. eapply validated_add_raw_exec; [|exact H5]. eapply validated_add_raw_exec; [|exact H4].
  eapply V_networks; [exact Ht|exact H3|]. vd.
Qed.

Theorem pod_V svc sp t' : from_pod podman mount_nl u path tbl = COk (svc, sp, t') -> Validated svc.
Proof.
  unfold from_pod. cbv zeta. bel. intros [i svc0] Hp. intros R. apply lift_ok in R. revert R.
  pose proof (validated_rename_own _ TPod (prologue_valid u Hu path Hpath _ _ _ _ _ Hp)) as V0.
  assert (Hi : Forall NZ (i_containers i)).
  { revert Hp. unfold prologue. destruct (file_name path) as [f|]; [|discriminate]. destruct (tbl_get tbl f) as [i0|] eqn:Eg; [|discriminate]. cbv zeta.
    bel. intros ? _. bel. intros ? _. bel. intros ? _. bel. intros ? _. intros X. injection X as <- _. exact (proj2 (TNZ_get _ _ _ Ht Eg)). }
  bel. intros pn _. bel. intros name _. bel. intros sysl _. bel. intros base _. bel. intros s1 H1. bel. intros s2 H2. bel. intros s3 H3.
  bel. intros a1 _. bel. intros a2 _. bel. intros [a3 s4] H4. bel. intros a4 _. bel. intros a5 _. bel. intros [a6 s5] H5. bel. intros s6 H6.
  intros E. injection E as <- _ _.
  assert (Vc : forall cs s, Forall NZ cs -> Validated s -> Validated (fold_left (fun s c => unit_add (unit_add s SEC_U (L "Wants") c) SEC_U (L "Before") c) cs s)).
  { induction cs as [|c cs IH]; intros s Hc Hs; [exact Hs|]. inversion Hc; subst. cbn [fold_left]. apply IH; [assumption|]. vd. }
  vd. eapply validated_add_raw_exec; [|exact H6]. eapply V_volumes; [exact Ht|exact Hpath|exact H5|]. eapply V_networks; [exact Ht|exact H4|].
  eapply validated_add_raw_exec; [|exact H3]. eapply validated_add_raw_exec; [|exact H2]. eapply validated_add_raw_exec; [|exact H1].
  destruct sysl; [|apply validated_unit_set; [nz|]]; apply Vc; try exact Hi; vd.
Qed.
Theorem volume_V svc sp t' : from_volume podman u path tbl = COk (svc, sp, t') -> Validated svc.
Proof.
  unfold from_volume. bel. intros [i svc0] Hp. intros R. apply lift_ok in R. revert R. cbv zeta. bel. intros nm _.
  destruct (file_name path) as [fname|] eqn:Ef; [|discriminate]. intros R. apply with_tbl_ok in R. revert R. bel. intros s1 B1. intros E. injection E as <- _ _.
  pose proof (validated_rename_own _ TVolume (prologue_valid u Hu path Hpath _ _ _ _ _ Hp)) as V0.
  (* the table the body sees differs from tbl only by this unit's resource name *)
  assert (Ht' : TNZ (tbl_set tbl fname (with_resource i nm))).
  { assert (Hg : tbl_get tbl fname = Some i).
    { revert Hp. unfold prologue. rewrite Ef. destruct (tbl_get tbl fname) as [i0|]; [|discriminate]. cbv zeta.
      bel. intros ? _. bel. intros ? _. bel. intros ? _. bel. intros ? _. intros X. injection X as <- _. reflexivity. }
    destruct Ht as [H1 H2]. split.
    - intros P s0. unfold sfile. destruct (str_eqb_spec P fname) as [->|Hne].
      + rewrite tbl_get_set_same. cbn [option_map]. intros X. injection X as <-. apply (H1 fname). unfold sfile. rewrite Hg. reflexivity.
      + rewrite tbl_get_set_other by exact Hne. apply H1.
    - intros P. unfold conts. destruct (str_eqb_spec P fname) as [->|Hne].
      + rewrite tbl_get_set_same. cbn [with_resource i_containers]. specialize (H2 fname). unfold conts in H2. rewrite Hg in H2. exact H2.
      + rewrite tbl_get_set_other by exact Hne. apply H2. }
  revert B1. unfold volume_body. cbv zeta.
  bel. intros base _. bel. intros driver _. bel. intros [a1 s2] H1. bel. intros s3 H3. intros H4.
  eapply V_one_shot; [exact H4|]. eapply validated_add_raw_exec; [|exact H3].
  assert (Vb : Validated (unit_add (rename_own svc0 TVolume) SEC_U (L "RequiresMountsFor") (L "%t/containers"))) by vd.
  revert H1. destruct (str_eqb _ (L "image")).
  - bel. intros img _. destruct img as [im|]; [|discriminate]. bel. intros [iname s4] H5. intros X. injection X as _ <-. eapply V_image_source; [exact Ht'|exact H5|exact Vb].
  - bel. intros usr _. bel. intros grp _. bel. intros dev _.
    destruct (match dev with Some (c :: s) => _ | _ => _ end) as [a2 dv]. bel. intros ty _. bel. intros a3 _. bel. intros mo _. bel. intros opts _.
    intros X. injection X as _ <-. exact Vb.
Qed.

Theorem build_V svc sp t' : from_build podman mount_nl u path tbl = COk (svc, sp, t') -> Validated svc.
Proof.
  unfold from_build. destruct (file_name path); [|discriminate]. destruct (tbl_get tbl l); [|discriminate]. destruct (i_resource_name i); [discriminate|]. cbv zeta.
  bel. intros ? _. bel. intros ? _. bel. intros ? _. bel. intros ? _. intros R. apply lift_ok in R. revert R.
  bel. intros base _. bel. intros pull _. bel. intros g1 _. bel. intros g2 _. bel. intros [g3 s3] H3. bel. intros [g4 s4] H4. bel. intros [ctx s5] H5.
  bel. intros wd _. bel. intros fp _. bel. intros [wdir fpath] _. bel. intros g5 _. bel. intros s6 H6. bel. intros s7 H7. intros E. injection E as <- _ _.
  eapply V_one_shot; [exact H7|]. eapply validated_add_raw_exec; [|exact H6]. eapply V_hswd; [exact Hpath|exact H5|]. eapply V_volumes; [exact Ht|exact Hpath|exact H4|].
  eapply V_networks; [exact Ht|exact H3|]. apply validated_rename_own.
  assert (Vd : Validated (unit_add (default_dependencies (merge_from [] u)) SEC_U (L "RequiresMountsFor") (L "%t/containers"))).
  { apply validated_unit_add; [nz|]. apply validated_default_dependencies. apply merged_units_validated; [constructor|exact Hu]. }
  destruct path; [exact Vd|]. apply validated_unit_add; [exact Hpath|exact Vd].
Qed.

Theorem convert_V t svc sp t' : convert_one podman exists_path kill_fixed mount_nl u path t tbl = COk (svc, sp, t') -> Validated svc.
Proof.
  destruct t; cbn [convert_one]; [apply build_V|apply container_V|apply image_V|apply kube_V|apply network_V|apply pod_V|apply volume_V].
Qed.
End ConvertersV.

(* ---- the whole run ---- *)
Section RunV.
Variables (podman : str) (exists_path : str -> bool) (kill_fixed mount_nl : bool).
Notation conv x tbl := (convert_one podman exists_path kill_fixed mount_nl (l_unit x) (l_path x) (i_type (l_info x)) tbl).

Lemma TNZ_set tbl n i : TNZ tbl -> NZ (service_file_name i) -> Forall NZ (i_containers i) -> TNZ (tbl_set tbl n i).
Proof.
  intros [H1 H2] Hs Hc. split.
  - intros P s0. unfold sfile. destruct (str_eqb_spec P n) as [->|Hne].
    + rewrite tbl_get_set_same. cbn [option_map]. intros X. injection X as <-. exact Hs.
    + rewrite tbl_get_set_other by exact Hne. apply H1.
  - intros P. unfold conts. destruct (str_eqb_spec P n) as [->|Hne].
    + rewrite tbl_get_set_same. exact Hc.
    + rewrite tbl_get_set_other by exact Hne. apply H2.
Qed.

Lemma TNZ_nil : TNZ [].
Proof. split; [intros P s0 X; discriminate X|intros P; constructor]. Qed.

Lemma TNZ_table_of l : Forall (fun x => NZ (service_file_name (l_info x)) /\ i_containers (l_info x) = []) l -> TNZ (table_of l).
Proof.
  unfold table_of. generalize (@nil (str * info)) TNZ_nil. induction l as [|x l IH]; intros t0 Ht0 H; [exact Ht0|].
  inversion H as [|? ? [Hs Hc] Hl]; subst. cbn [fold_left]. apply IH; [|exact Hl].
  destruct (file_name (l_path x)); [|exact Ht0]. apply TNZ_set; [exact Ht0|exact Hs|rewrite Hc; constructor].
Qed.

Lemma regd_NZ x tbl P : (forall f s, sfile tbl f = Some s -> NZ s) -> Forall NZ (regd podman exists_path kill_fixed mount_nl x tbl P).
Proof.
  intros H1. unfold regd. destruct (i_type (l_info x)); try constructor.
  assert (G : Forall NZ (match pod_reg (l_unit x) tbl, own_sfile x tbl with
                         | Some (P', _), Some sp => if str_eqb P' P then [sp] else []
                         | _, _ => []
                         end)).
  { destruct (pod_reg (l_unit x) tbl) as [[P' i']|]; [|constructor]. destruct (own_sfile x tbl) as [sp|] eqn:Eo; [|constructor].
    destruct (str_eqb P' P); [|constructor]. constructor; [|constructor]. unfold own_sfile in Eo.
    destruct (file_name (l_path x)) as [f|]; [|discriminate]. exact (H1 f sp Eo). }
  match goal with |- Forall NZ (match ?c with _ => _ end) => destruct c as [v|e [t|]| |] end; try constructor; exact G.
Qed.

Lemma TNZ_step x tbl : TNZ tbl -> TNZ (step_tbl podman exists_path kill_fixed mount_nl x tbl).
Proof.
  intros [H1 H2]. split.
  - intros P s0. rewrite step_sfile. apply H1.
  - intros P. rewrite step_conts. apply Forall_app. split; [apply H2|apply regd_NZ; exact H1].
Qed.

Lemma convert_all_V l : forall tbl p svc sp, TNZ tbl -> (forall x, In x l -> Validated (l_unit x) /\ NZ (l_path x)) ->
  In (p, ROk svc sp) (convert_all podman exists_path kill_fixed mount_nl l tbl) -> Validated svc.
Proof.
  induction l as [|x r IH]; intros tbl p svc sp Ht Hl Hin; [destruct Hin|].
  rewrite convert_all_cons in Hin. cbv zeta in Hin. destruct Hin as [Hin|Hin].
  - destruct (Hl x (or_introl eq_refl)) as [Hu Hp]. destruct (conv x tbl) as [[[s q] t1]|e o| |] eqn:E; cbn [res_of] in Hin; try discriminate.
    injection Hin as _ <- _. eapply convert_V; [exact Hu|exact Hp|exact Ht|exact E].
  - eapply IH; [|intros y Hy; apply Hl; right; exact Hy|exact Hin]. apply (TNZ_step x tbl Ht).
Qed.
End RunV.

(* every value of every service of the run passes the load-time validation: the generator can always read its own files *)
Theorem run_services_are_validated podman exists_path kill_fixed mount_nl files p svc sp :
  (forall q t, In (q, t) files -> NZ q) ->
  In (p, ROk svc sp) (snd (process_files podman exists_path kill_fixed mount_nl files)) -> Validated svc.
Proof.
  intros Hf. unfold process_files. cbv zeta. cbn [snd]. intros H.
  set (units := flat_map (fun p0 : str * load_res => match snd p0 with LOk u0 i0 => [{| l_path := fst p0; l_unit := u0; l_info := i0 |}] | _ => [] end)
                         (map (fun f : str * str => (fst f, load_one (fst f) (snd f))) files)) in *.
  assert (Hunits : forall x, In x units -> Validated (l_unit x) /\ NZ (l_path x) /\ NZ (service_file_name (l_info x)) /\ i_containers (l_info x) = []).
  { intros x Hx. unfold units in Hx. apply in_flat_map in Hx. destruct Hx as [[q lr] [Hq Hx]]. apply in_map_iff in Hq. destruct Hq as [[q' text] [Eq Hin]]. cbn [fst snd] in Eq.
    injection Eq as <- <-. cbn [snd fst] in Hx. destruct (load_one q' text) as [u0 i0| | |] eqn:El; [|destruct Hx|destruct Hx|destruct Hx].
    destruct Hx as [<-|[]]. cbn [l_unit l_path l_info]. unfold load_one in El. destruct (parse_unit text) as [u1|] eqn:Ep; [|discriminate].
    destruct (unit_info u1 q') as [i1| | |] eqn:Ei; try discriminate. injection El as <- <-.
    pose proof (Hf _ _ Hin) as Hq. destruct (unit_info_NZ _ _ _ Hq Ei) as [Hs Hc].
    split; [eapply parsed_units_validated; exact Ep|]. split; [exact Hq|]. split; assumption. }
  assert (Hsorted : forall x, In x (sort_units units) -> In x units).
  { intros x Hx. unfold sort_units in Hx. apply in_sort_units in Hx. destruct Hx as [[]|Hx]. exact Hx. }
  eapply convert_all_V; [| |exact H].
  - apply TNZ_table_of. apply Forall_forall. intros x Hx. destruct (Hunits x (Hsorted x Hx)) as (_ & _ & Hs & Hc). split; assumption.
  - intros x Hx. destruct (Hunits x (Hsorted x Hx)) as (Hu & Hp & _). split; assumption.
Qed.

(* ---- reading every generated service back ---- *)
(* what is left to exclude: an empty key, and a value with a blank at an edge (the known class BlankAtValueEdge) *)
Definition edge_free (v : str) : Prop := (match v with c :: _ => is_blank_c c = false | [] => True end) /\ trim_end v = v.
Definition EdgeFree (u : unit) : Prop := Forall (fun s : str * entries => Forall (fun e : entry => fst e <> [] /\ edge_free (snd e)) (snd s)) u.

Lemma entries_ok_of u : Validated u -> EdgeFree u -> EntriesOk u.
Proof.
  intros Hv He. unfold EntriesOk. induction Hv as [|[n es] r Hs Hr IH]; [constructor|]. inversion He as [|? ? He1 He2]; subst.
  constructor; [|apply IH; exact He2]. cbn [snd] in *. clear -Hs He1. induction Hs as [|[k v] es Hv Hes IH]; [constructor|].
  inversion He1 as [|? ? [Hk [Hb Ht]] He2]; subst. constructor; [|apply IH; exact He2]. cbn [fst snd] in *.
  split; [exact Hk|]. split; [exact Hv|split; assumption].
Qed.

Theorem run_services_read_back_exactly podman exists_path kill_fixed mount_nl files p svc sp :
  (forall q t, In (q, t) files -> NZ q) ->
  In (p, ROk svc sp) (snd (process_files podman exists_path kill_fixed mount_nl files)) ->
  EdgeFree svc -> parse_unit (to_string svc) = Some svc.
Proof.
  intros Hf H He. eapply run_services_read_back; [exact H|]. apply entries_ok_of; [|exact He].
  eapply run_services_are_validated; eassumption.
Qed.
