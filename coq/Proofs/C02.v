(* C02: table-driven keys add exactly their documented option; frame lemmas for the look-up-and-add handlers. *)
From QV Require Import Model.Base Generated.Tables Model.Quote Model.Unquote Model.Split Model.PortRange Model.Unit Model.Path
  Model.Names Model.Convert Spec.Docs Proofs.Util Proofs.C15 Proofs.C07.
Open Scope N_scope.

(* ---- the (key, option) tables found in the source are the documented ones ---- *)
Definition kind_eqb (a b : kind) : bool :=
  match a, b with
  | KStr, KStr | KStrEq, KStrEq | KBool, KBool | KAll, KAll | KStrv, KStrv | KArgs, KArgs | KArgsRaw, KArgsRaw | KKv, KKv | KSpecial, KSpecial => true
  | _, _ => false
  end.

Definition pairs_documented (doc : list (str * kind * str)) (kd : kind) (pt : list (str * str)) : bool :=
  forallb (fun p => existsb (fun d => str_eqb (fst (fst d)) (fst p) && kind_eqb (snd (fst d)) kd && str_eqb (snd d) (snd p)) doc) pt.

Definition health_pairs : list (str * str) := map (fun p => (fst p, s2l "--health-" ++ snd p)) pt_handle_health_key_arg_map.

Lemma tables_documented :
  pairs_documented doc_table_container KStr pt_from_container_unit_string_keys = true /\
  pairs_documented doc_table_container KAll pt_from_container_unit_all_string_keys = true /\
  pairs_documented doc_table_container KBool pt_from_container_unit_bool_keys = true /\
  pairs_documented doc_table_container KAll pt_handle_publish_ports_inline0 = true /\
  pairs_documented doc_table_container KStr health_pairs = true /\
  pairs_documented doc_table_container KAll pt_get_base_podman_command_inline0 = true /\
  pairs_documented doc_table_build KStr pt_from_build_unit_string_keys = true /\
  pairs_documented doc_table_build KBool pt_from_build_unit_bool_keys = true /\
  pairs_documented doc_table_build KAll pt_from_build_unit_all_string_keys = true /\
  pairs_documented doc_table_image KStr pt_from_image_unit_string_keys = true /\
  pairs_documented doc_table_image KBool pt_from_image_unit_bool_keys = true /\
  pairs_documented doc_table_network KBool pt_from_network_unit_bool_keys = true /\
  pairs_documented doc_table_network KStr pt_from_network_unit_string_keys = true /\
  pairs_documented doc_table_network KAll pt_from_network_unit_inline0 = true /\
  pairs_documented doc_table_pod KStr pt_from_pod_unit_string_keys = true /\
  pairs_documented doc_table_pod KAll pt_from_pod_unit_all_string_keys = true.
Proof. vm_compute. repeat split; reflexivity. Qed.

(* ---- adding an assignment of key k0 does not change what is looked up for any other key ---- *)
Lemma values_raw_add_other u sec k0 raw k : k0 <> k -> values_raw (add_entry u sec k0 raw) sec k = values_raw u sec k.
Proof.
  intros Hne. pose proof (vals_add_entry u sec k0 raw sec k) as H. unfold vals in H. rewrite H.
  destruct (str_eqb_spec k0 k); [congruence|]. rewrite andb_false_r, app_nil_r. reflexivity.
Qed.

Lemma lookup_last_add_other u sec k0 raw k : k0 <> k -> lookup_last (add_entry u sec k0 raw) sec k = lookup_last u sec k.
Proof. intros H. unfold lookup_last, lookup_last_value. rewrite values_raw_add_other by exact H. reflexivity. Qed.

Lemma lookup_bool_add_other u sec k0 raw k : k0 <> k -> lookup_bool (add_entry u sec k0 raw) sec k = lookup_bool u sec k.
Proof. intros H. unfold lookup_bool, lookup_last_value. rewrite values_raw_add_other by exact H. reflexivity. Qed.

Lemma lookup_all_add_other u sec k0 raw k : k0 <> k -> lookup_all (add_entry u sec k0 raw) sec k = lookup_all u sec k.
Proof. intros H. unfold lookup_all, lookup_all_values. rewrite values_raw_add_other by exact H. reflexivity. Qed.

(* what a fresh key looks up after its first assignment *)
Lemma values_raw_add_fresh u sec k0 raw : values_raw u sec k0 = [] -> values_raw (add_entry u sec k0 raw) sec k0 = [raw].
Proof.
  intros Hf. pose proof (vals_add_entry u sec k0 raw sec k0) as H. unfold vals in H. rewrite H, Hf.
  rewrite !str_eqb_refl. reflexivity.
Qed.

(* ---- look-up-and-add for single strings ---- *)
Definition str_group (u : unit) (sec : str) (p : str * str) : list str :=
  match lookup_last u sec (fst p) with Some (POk (c :: s)) => [snd p; c :: s] | _ => [] end.

Definition no_panic (u : unit) (sec : str) (keys : list (str * str)) : Prop :=
  forall p, In p keys -> lookup_last u sec (fst p) <> Some PPanic.

Lemma add_strings_spec u sec keys : forall args, no_panic u sec keys ->
  add_strings u sec keys args = COk (args ++ flat_map (str_group u sec) keys).
Proof.
  induction keys as [|[k flag] r IH]; intros args Hnp.
  - cbn. rewrite app_nil_r. reflexivity.
  - cbn [add_strings flat_map]. unfold lk.
    assert (H0 := Hnp (k, flag) (or_introl eq_refl)). cbn [fst] in H0.
    unfold str_group at 1. cbn [fst snd].
    destruct (lookup_last u sec k) as [[v|]|] eqn:E; [| congruence |]; cbn [bind].
    + rewrite IH by (intros p Hp; apply Hnp; right; exact Hp).
      destruct v; rewrite <- ?app_assoc; reflexivity.
    + rewrite IH by (intros p Hp; apply Hnp; right; exact Hp). reflexivity.
Qed.

Lemma str_group_add_other u sec k0 raw p : k0 <> fst p -> str_group (add_entry u sec k0 raw) sec p = str_group u sec p.
Proof. intros H. unfold str_group. rewrite lookup_last_add_other by exact H. reflexivity. Qed.

Lemma flat_map_ext_in {A B} (f g : A -> list B) l : (forall x, In x l -> f x = g x) -> flat_map f l = flat_map g l.
Proof. induction l as [|x l IH]; intros H; [reflexivity|]. cbn. rewrite (H x (or_introl eq_refl)), IH; [reflexivity|]. intros y Hy. apply H. right. exact Hy. Qed.

(* the frame theorem for single-valued table keys: a first assignment K0=raw (raw unquoting to the non-empty v) adds exactly
   [flag0; v] at K0's slot of the segment, and the option groups of all other keys of the table are unchanged *)
Theorem strings_frame u sec pre post k0 flag0 raw c v args :
  NoDup (map fst (pre ++ (k0, flag0) :: post)) ->
  values_raw u sec k0 = [] -> unquote_value raw = Some (c :: v) -> raw <> [] ->
  no_panic u sec (pre ++ (k0, flag0) :: post) ->
  add_strings u sec (pre ++ (k0, flag0) :: post) args
    = COk (args ++ flat_map (str_group u sec) pre ++ flat_map (str_group u sec) post) /\
  add_strings (add_entry u sec k0 raw) sec (pre ++ (k0, flag0) :: post) args
    = COk (args ++ flat_map (str_group u sec) pre ++ [flag0; c :: v] ++ flat_map (str_group u sec) post).
Proof.
  intros Hnd Hfresh Huq Hraw Hnp.
  assert (Hk0 : str_group u sec (k0, flag0) = []).
  { unfold str_group, lookup_last, lookup_last_value. cbn [fst]. rewrite Hfresh. reflexivity. }
  assert (Hk0' : str_group (add_entry u sec k0 raw) sec (k0, flag0) = [flag0; c :: v]).
  { unfold str_group, lookup_last, lookup_last_value. cbn [fst snd]. rewrite values_raw_add_fresh by exact Hfresh. cbn [last_opt].
    destruct raw; [congruence|]. cbn [option_map]. unfold unquote_or_panic. rewrite Huq. reflexivity. }
  assert (Hother : forall p, In p (pre ++ post) -> k0 <> fst p).
  { intros p Hp Heq. rewrite map_app in Hnd. cbn [map fst] in Hnd. apply NoDup_remove_2 in Hnd. apply Hnd.
    rewrite <- map_app. rewrite Heq. apply in_map. exact Hp. }
  split.
  - rewrite add_strings_spec by exact Hnp. rewrite flat_map_app. cbn [flat_map]. rewrite Hk0. reflexivity.
  - rewrite add_strings_spec.
    + rewrite flat_map_app. cbn [flat_map]. rewrite Hk0'.
      rewrite (flat_map_ext_in (str_group (add_entry u sec k0 raw) sec) (str_group u sec) pre)
        by (intros p Hp; apply str_group_add_other; apply Hother; apply in_or_app; left; exact Hp).
      rewrite (flat_map_ext_in (str_group (add_entry u sec k0 raw) sec) (str_group u sec) post)
        by (intros p Hp; apply str_group_add_other; apply Hother; apply in_or_app; right; exact Hp).
      reflexivity.
    + intros p Hp. apply in_app_or in Hp. destruct Hp as [Hp|[<-|Hp]].
      * rewrite lookup_last_add_other by (apply Hother; apply in_or_app; left; exact Hp). apply Hnp. apply in_or_app. left. exact Hp.
      * cbn [fst]. unfold lookup_last, lookup_last_value. rewrite values_raw_add_fresh by exact Hfresh. cbn [last_opt].
        destruct raw; [congruence|]. cbn [option_map]. unfold unquote_or_panic. rewrite Huq. discriminate.
      * rewrite lookup_last_add_other by (apply Hother; apply in_or_app; right; exact Hp). apply Hnp. apply in_or_app. right. right. exact Hp.
Qed.

(* ---- booleans ---- *)
Definition bool_group (u : unit) (sec : str) (p : str * str) : list str :=
  match lookup_bool u sec (fst p) with Some true => [snd p] | Some false => [snd p ++ s2l "=false"] | None => [] end.

Lemma add_bools_spec u sec keys : forall args, add_bools u sec keys args = args ++ flat_map (bool_group u sec) keys.
Proof.
  induction keys as [|[k flag] r IH]; intros args; cbn [add_bools flat_map]; [rewrite app_nil_r; reflexivity|].
  rewrite IH. unfold bool_group at 2. cbn [fst snd]. destruct (lookup_bool u sec k) as [[|]|]; unfold add_bool; rewrite <- ?app_assoc; reflexivity.
Qed.

Theorem bools_frame u sec pre post k0 flag0 raw b args :
  NoDup (map fst (pre ++ (k0, flag0) :: post)) ->
  values_raw u sec k0 = [] -> raw <> [] -> to_bool raw = Some b ->
  add_bools u sec (pre ++ (k0, flag0) :: post) args = args ++ flat_map (bool_group u sec) pre ++ flat_map (bool_group u sec) post /\
  add_bools (add_entry u sec k0 raw) sec (pre ++ (k0, flag0) :: post) args
    = args ++ flat_map (bool_group u sec) pre ++ (if b then [flag0] else [flag0 ++ s2l "=false"]) ++ flat_map (bool_group u sec) post.
Proof.
  intros Hnd Hfresh Hraw Hb.
  assert (Hother : forall p, In p (pre ++ post) -> k0 <> fst p).
  { intros p Hp Heq. rewrite map_app in Hnd. cbn [map fst] in Hnd. apply NoDup_remove_2 in Hnd. apply Hnd.
    rewrite <- map_app. rewrite Heq. apply in_map. exact Hp. }
  assert (Hg : forall p, In p (pre ++ post) -> bool_group (add_entry u sec k0 raw) sec p = bool_group u sec p).
  { intros p Hp. unfold bool_group. rewrite lookup_bool_add_other by (apply Hother; exact Hp). reflexivity. }
  rewrite !add_bools_spec, !flat_map_app. cbn [flat_map]. split.
  - unfold bool_group at 2. unfold lookup_bool, lookup_last_value. cbn [fst]. rewrite Hfresh. reflexivity.
  - rewrite (flat_map_ext_in _ (bool_group u sec) pre) by (intros p Hp; apply Hg; apply in_or_app; left; exact Hp).
    rewrite (flat_map_ext_in _ (bool_group u sec) post) by (intros p Hp; apply Hg; apply in_or_app; right; exact Hp).
    unfold bool_group at 2. unfold lookup_bool, lookup_last_value. cbn [fst snd]. rewrite values_raw_add_fresh by exact Hfresh.
    cbn [last_opt]. destruct raw; [congruence|]. cbn [option_map]. rewrite Hb. destruct b; reflexivity.
Qed.

(* ---- one option per assignment ---- *)
Definition all_group (u : unit) (sec : str) (p : str * str) : list str :=
  match lookup_all u sec (fst p) with POk vs => flat_map (fun v => [snd p; v]) vs | PPanic => [] end.
Definition no_panic_all (u : unit) (sec : str) (keys : list (str * str)) : Prop :=
  forall p, In p keys -> lookup_all u sec (fst p) <> PPanic.

Lemma add_all_strings_spec u sec keys : forall args, no_panic_all u sec keys ->
  add_all_strings u sec keys args = COk (args ++ flat_map (all_group u sec) keys).
Proof.
  induction keys as [|[k flag] r IH]; intros args Hnp.
  - cbn. rewrite app_nil_r. reflexivity.
  - cbn [add_all_strings flat_map]. unfold lk_all, of_pres.
    assert (H0 := Hnp (k, flag) (or_introl eq_refl)). cbn [fst] in H0.
    unfold all_group at 1. cbn [fst snd]. destruct (lookup_all u sec k) as [vs|]; [|congruence]. cbn [bind].
    rewrite IH by (intros p Hp; apply Hnp; right; exact Hp). rewrite <- app_assoc. reflexivity.
Qed.

Theorem all_strings_frame u sec pre post k0 flag0 raw v args :
  NoDup (map fst (pre ++ (k0, flag0) :: post)) ->
  values_raw u sec k0 = [] -> unquote_value raw = Some v -> raw <> [] ->
  no_panic_all u sec (pre ++ (k0, flag0) :: post) ->
  add_all_strings u sec (pre ++ (k0, flag0) :: post) args
    = COk (args ++ flat_map (all_group u sec) pre ++ flat_map (all_group u sec) post) /\
  add_all_strings (add_entry u sec k0 raw) sec (pre ++ (k0, flag0) :: post) args
    = COk (args ++ flat_map (all_group u sec) pre ++ [flag0; v] ++ flat_map (all_group u sec) post).
Proof.
  intros Hnd Hfresh Huq Hraw Hnp.
  assert (Hother : forall p, In p (pre ++ post) -> k0 <> fst p).
  { intros p Hp Heq. rewrite map_app in Hnd. cbn [map fst] in Hnd. apply NoDup_remove_2 in Hnd. apply Hnd.
    rewrite <- map_app. rewrite Heq. apply in_map. exact Hp. }
  assert (Hg : forall p, In p (pre ++ post) -> all_group (add_entry u sec k0 raw) sec p = all_group u sec p).
  { intros p Hp. unfold all_group. rewrite lookup_all_add_other by (apply Hother; exact Hp). reflexivity. }
  assert (Hk0 : all_group u sec (k0, flag0) = []).
  { unfold all_group, lookup_all, lookup_all_values. cbn [fst]. rewrite Hfresh. reflexivity. }
  assert (Hk0' : lookup_all (add_entry u sec k0 raw) sec k0 = POk [v]).
  { unfold lookup_all, lookup_all_values. rewrite values_raw_add_fresh by exact Hfresh.
    unfold reset_fold. cbn [fold_left]. destruct raw; [congruence|]. cbn [app map all_ok]. unfold unquote_or_panic. rewrite Huq. reflexivity. }
  split.
  - rewrite add_all_strings_spec by exact Hnp. rewrite flat_map_app. cbn [flat_map]. rewrite Hk0. reflexivity.
  - rewrite add_all_strings_spec.
    + rewrite flat_map_app. cbn [flat_map].
      rewrite (flat_map_ext_in _ (all_group u sec) pre) by (intros p Hp; apply Hg; apply in_or_app; left; exact Hp).
      rewrite (flat_map_ext_in _ (all_group u sec) post) by (intros p Hp; apply Hg; apply in_or_app; right; exact Hp).
      unfold all_group at 2. cbn [fst snd]. rewrite Hk0'. cbn [flat_map app]. reflexivity.
    + intros p Hp. apply in_app_or in Hp. destruct Hp as [Hp|[<-|Hp]].
      * rewrite lookup_all_add_other by (apply Hother; apply in_or_app; left; exact Hp). apply Hnp. apply in_or_app. left. exact Hp.
      * cbn [fst]. rewrite Hk0'. discriminate.
      * rewrite lookup_all_add_other by (apply Hother; apply in_or_app; right; exact Hp). apply Hnp. apply in_or_app. right. right. exact Hp.
Qed.

(* ---- pinned defects of two special handlers, on the model ---- *)
Definition exec_of (r : cres (unit * str * table)) : option (list str) :=
  match r with COk (svc, _, _) => Some (vals svc (s2l "Service") (s2l "ExecStart")) | _ => None end.

Definition vol_unit : unit := [(s2l "Container", [(s2l "Image", s2l "img"); (s2l "Volume", s2l "/a:/b:ro:z")])].
Definition mnt_unit : unit := [(s2l "Container", [(s2l "Image", s2l "img"); (s2l "Mount", s2l "type=bind,source=/x,target=/y")])].

Lemma volume_pinned_refuted :
  exec_of (convert_one (s2l "/usr/bin/podman") (fun _ => false) true true vol_unit (s2l "/d/a.container") TContainer demo_tbl)
  = Some [s2l "/usr/bin/podman run --name systemd-%N --cidfile=%t/%N.cid --replace --rm --cgroups split --sdnotify=conmon -d -v /a:/b:ro img"]
  /\
  exec_of (convert_one (s2l "/usr/bin/podman") (fun _ => false) true false vol_unit (s2l "/d/a.container") TContainer demo_tbl)
  = Some [s2l "/usr/bin/podman run --name systemd-%N --cidfile=%t/%N.cid --replace --rm --cgroups split --sdnotify=conmon -d -v /a:/b:ro:z img"].
Proof. vm_compute. split; reflexivity. Qed.

Lemma mount_pinned_refuted :
  exec_of (convert_one (s2l "/usr/bin/podman") (fun _ => false) true true mnt_unit (s2l "/d/a.container") TContainer demo_tbl)
  = Some [s2l "/usr/bin/podman run --name systemd-%N --cidfile=%t/%N.cid --replace --rm --cgroups split --sdnotify=conmon -d --mount ""type=bind,source=/x,target=/y\n"" img"].
Proof. vm_compute. reflexivity. Qed.
