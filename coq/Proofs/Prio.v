(* The conversion order: the type priorities of the model are the ones found in main.rs today (Generated/Tables.v is regenerated from
   the source on every run), and they put every unit type whose object name is stored at conversion time -- .image, .network,
   .volume -- before every unit type that can refer to it. *)
From QV Require Import Model.Base Generated.Tables Model.Names.
Open Scope N_scope.

Definition type_name (t : qtype) : str :=
  match t with
  | TBuild => s2l "Build" | TContainer => s2l "Container" | TImage => s2l "Image" | TKube => s2l "Kube"
  | TNetwork => s2l "Network" | TPod => s2l "Pod" | TVolume => s2l "Volume"
  end.

Lemma priority_table_ok : length priority_table = 7%nat /\ forall t, assoc_str (type_name t) priority_table = Some (type_priority t).
Proof. split; [reflexivity|]. intros []; vm_compute; reflexivity. Qed.

(* reference edges: a volume may name an image (Driver=image); builds, containers, kube units and pods may name volumes, networks and
   images; containers may name builds.  Referenced types come strictly first. *)
Lemma referenced_types_first :
  type_priority TImage < type_priority TVolume /\
  (forall a b, In a [TImage; TNetwork; TVolume] -> In b [TBuild; TContainer; TKube; TPod] -> type_priority a < type_priority b) /\
  type_priority TBuild < type_priority TContainer.
Proof.
  split; [reflexivity|]. split; [|reflexivity]. intros a b Ha Hb. cbn [In] in Ha, Hb.
  destruct Ha as [<-|[<-|[<-|[]]]]; destruct Hb as [<-|[<-|[<-|[<-|[]]]]]; reflexivity.
Qed.
