(* C07 over whole converter runs: what a successful conversion does to the user's sections. *)
From QV Require Import Model.Base Generated.Tables Model.Quote Model.Unquote Model.Split Model.PortRange Model.Unit Model.Lex Model.Parser
  Model.Path Model.Names Model.Convert Model.Process Spec.Passthrough Proofs.Util Proofs.C15 Proofs.C07 Proofs.C08.
Open Scope N_scope.

(* [Ext K a b]: b extends a -- every (section, key) keeps its values, in order, as a prefix; new values appear only in [Unit] and
   [Service]; the keys K of [Service] (the settings the generator manages with set) are exempt *)
(* [Ext A K a b]: b extends a -- every (section, key) keeps its values, in order, as a prefix; values are appended only for the
   pairs in A; the keys K of [Service] (settings the generator manages with set, i.e. replaces the last value of) are exempt *)
Definition Ext (A : list (str * str)) (K : list str) (a b : unit) : Prop :=
  forall sec k, (sec = SEC_S -> ~ In k K) ->
    exists post, vals b sec k = vals a sec k ++ post /\ (~ In (sec, k) A -> post = []).

Ltac sne := let X := fresh in intros X; vm_compute in X; discriminate X.
Ltac in_list := cbv [ACT AKUBE APOD AONE ABUILD ABASE app]; cbn [In]; auto 40.
Ltac in_a := first [assumption
                   | match goal with HA : incl ABASE ?A |- In _ ?A => apply HA; unfold ABASE; cbn [In]; auto 10 end
                   | in_list].
Ltac solve_incl := first [assumption | (intros x Hx; unfold ABASE in Hx; cbn [In] in Hx; repeat (destruct Hx as [<-|Hx]; [in_list|]); destruct Hx)].

Section Generic.
Variable A : list (str * str).
Hypothesis HA : incl ABASE A.
Variable K : list str.

Lemma Ext_refl a : Ext A K a a.
Proof. intros sec k _. exists []. rewrite app_nil_r. split; reflexivity. Qed.

Lemma Ext_trans a b c : Ext A K a b -> Ext A K b c -> Ext A K a c.
Proof.
  intros H1 H2 sec k Hk. destruct (H1 sec k Hk) as [p1 [E1 N1]]. destruct (H2 sec k Hk) as [p2 [E2 N2]].
  exists (p1 ++ p2). split.
  - rewrite E2, E1, app_assoc. reflexivity.
  - intros X. rewrite (N1 X), (N2 X). reflexivity.
Qed.

Lemma Ext_add_entry a sec k raw : In (sec, k) A -> Ext A K a (add_entry a sec k raw).
Proof.
  intros Hs sec' k' _. rewrite vals_add_entry. eexists. split; [reflexivity|].
  intros X. destruct (str_eqb_spec sec' sec) as [->|Hne]; [|reflexivity].
  destruct (str_eqb_spec k k') as [->|Hk]; [contradiction|reflexivity].
Qed.

Lemma Ext_add a sec k v : In (sec, k) A -> Ext A K a (unit_add a sec k v).
Proof. apply Ext_add_entry. Qed.

Lemma Ext_set a k v : In k K -> Ext A K a (unit_set a SEC_S k v).
Proof.
  intros Hin sec' k' Hk. exists []. rewrite app_nil_r. split; [|reflexivity]. unfold unit_set.
  destruct (str_eqb_spec sec' SEC_S) as [->|Hne].
  - apply vals_set_other_key. intros ->. exact (Hk eq_refl Hin).
  - apply vals_set_other_sec. exact Hne.
Qed.

Lemma Ext_add_raw_exec svc key args svc' : In (SEC_S, key) A -> add_raw_exec svc key args = COk svc' -> Ext A K svc svc'.
Proof.
  intros Hin. unfold add_raw_exec, unit_add_raw. destruct (unquote_value _); [|discriminate]. intros H. injection H as <-.
  apply Ext_add_entry. exact Hin.
Qed.

Lemma Ext_requires_after svc sfn : Ext A K svc (unit_add (unit_add svc SEC_U (s2l "Requires") sfn) SEC_U (s2l "After") sfn).
Proof. eapply Ext_trans; apply Ext_add; in_a. Qed.

Lemma Ext_image_source name svc tbl r svc' : handle_image_source name svc tbl = COk (r, svc') -> Ext A K svc svc'.
Proof.
  unfold handle_image_source. destruct (_ || _).
  - destruct (tbl_get tbl name); [|discriminate]. intros H. injection H as _ <-. apply Ext_requires_after.
  - intros H. injection H as _ <-. apply Ext_refl.
Qed.

Lemma bind_ok {E X Y} (m : res E X) (f : X -> res E Y) r : bind m f = COk r -> exists a, m = COk a /\ f a = COk r.
Proof. destruct m; cbn [bind]; try discriminate. intros H. eexists. split; [reflexivity|exact H]. Qed.

Lemma Ext_networks_loop tbl nets : forall svc args args' svc',
  networks_loop nets svc tbl args = COk (args', svc') -> Ext A K svc svc'.
Proof.
  induction nets as [|net r IH]; intros svc args args' svc'; cbn [networks_loop].
  - intros H. injection H as _ <-. apply Ext_refl.
  - destruct net as [|c0 net0]; [apply IH|].
    destruct (match split_once cCOLON (c0 :: net0) with Some (a, b) => (a, Some b) | None => (c0 :: net0, None) end) as [name opts].
    intros H. apply bind_ok in H. destruct H as [[rname svc1] [H1 H2]].
    assert (E1 : Ext A K svc svc1).
    { destruct (_ || _) in H1.
      - destruct (tbl_get tbl name); [|discriminate]. destruct (i_resource_name i); [discriminate|].
        injection H1 as _ <-. apply Ext_requires_after.
      - injection H1 as _ <-. apply Ext_refl. }
    destruct opts.
    + cbv zeta in H2. revert H2. destruct (ends_with (s2l ".container") name); [discriminate|]. intros H2. eapply Ext_trans; [exact E1|]. eapply IH. exact H2.
    + eapply Ext_trans; [exact E1|]. eapply IH. exact H2.
Qed.

Lemma Ext_handle_networks u sec svc tbl args args' svc' :
  handle_networks u sec svc tbl args = COk (args', svc') -> Ext A K svc svc'.
Proof. unfold handle_networks. intros H. apply bind_ok in H. destruct H as [nets [_ H]]. eapply Ext_networks_loop. exact H. Qed.

Lemma Ext_storage_source unit_path svc source tbl ci r svc' :
  handle_storage_source unit_path svc source tbl ci = COk (r, svc') -> Ext A K svc svc'.
Proof.
  unfold handle_storage_source. intros H. apply bind_ok in H. destruct H as [src [_ H]]. revert H.
  destruct (starts_with [cSLASH] src).
  - intros H. injection H as _ <-. apply Ext_add. in_a.
  - destruct (_ || _).
    + destruct (tbl_get tbl src); [|discriminate]. intros H. injection H as _ <-. apply Ext_requires_after.
    + intros H. injection H as _ <-. apply Ext_refl.
Qed.

Lemma Ext_volumes_loop pinned unit_path tbl vols : forall svc args args' svc',
  volumes_loop pinned unit_path vols svc tbl args = COk (args', svc') -> Ext A K svc svc'.
Proof.
  induction vols as [|v r IH]; intros svc args args' svc'; cbn [volumes_loop].
  - intros H. injection H as _ <-. apply Ext_refl.
  - lazymatch goal with |- (match ?e with pair _ _ => _ end) = _ -> _ => destruct e as [[source dest] options] end.
    destruct source as [|c s].
    + apply IH.
    + intros H. apply bind_ok in H. destruct H as [[src svc1] [H1 H2]].
      eapply Ext_trans; [eapply Ext_storage_source; exact H1|]. eapply IH. exact H2.
Qed.

Lemma Ext_handle_volumes pinned u unit_path sec svc tbl args args' svc' :
  handle_volumes pinned u unit_path sec svc tbl args = COk (args', svc') -> Ext A K svc svc'.
Proof. unfold handle_volumes. intros H. apply bind_ok in H. destruct H as [vols [_ H]]. eapply Ext_volumes_loop. exact H. Qed.

Lemma Ext_mount_tokens unit_path tbl tokens : forall svc acc out svc',
  mount_tokens unit_path tokens svc tbl acc = COk (out, svc') -> Ext A K svc svc'.
Proof.
  induction tokens as [|t r IH]; intros svc acc out svc'; cbn [mount_tokens].
  - intros H. injection H as _ <-. apply Ext_refl.
  - destruct (_ || _); [|apply IH].
    destruct (split_once cEQ t) as [[a v]|]; [|discriminate].
    intros H. apply bind_ok in H. destruct H as [[src svc1] [H1 H2]].
    eapply Ext_trans; [eapply Ext_storage_source; exact H1|]. eapply IH. exact H2.
Qed.

Lemma Ext_resolve_mount nl unit_path mount svc tbl s svc' :
  resolve_mount nl unit_path mount svc tbl = COk (s, svc') -> Ext A K svc svc'.
Proof.
  unfold resolve_mount. destruct (negb (csv_plain mount)); [discriminate|]. destruct mount as [|c m]; [discriminate|].
  destruct (find_type _ None []) as [[ty|] tokens]; [|discriminate].
  destruct (negb _).
  - intros H. injection H as _ <-. apply Ext_refl.
  - intros H. apply bind_ok in H. destruct H as [[out svc1] [H1 H2]]. revert H2.
    destruct (existsb _ out); [discriminate|]. intros H2. injection H2 as _ <-. eapply Ext_mount_tokens. exact H1.
Qed.

Lemma Ext_mounts_loop nl unit_path tbl ms : forall svc args args' svc',
  mounts_loop nl unit_path ms svc tbl args = COk (args', svc') -> Ext A K svc svc'.
Proof.
  induction ms as [|m r IH]; intros svc args args' svc'; cbn [mounts_loop].
  - intros H. injection H as _ <-. apply Ext_refl.
  - intros H. apply bind_ok in H. destruct H as [[s svc1] [H1 H2]].
    eapply Ext_trans; [eapply Ext_resolve_mount; exact H1|]. eapply IH. exact H2.
Qed.

Lemma Ext_handle_pod u sec svc svc_path tbl args args' svc' tbl' :
  handle_pod u sec svc svc_path tbl args = COk (args', svc', tbl') -> Ext A K svc svc'.
Proof.
  unfold handle_pod. intros H. apply bind_ok in H. destruct H as [pod [_ H]]. revert H.
  destruct pod as [[|c p]|].
  - intros H. injection H as _ <- _. apply Ext_refl.
  - destruct (negb _); [discriminate|]. destruct (tbl_get tbl (c :: p)); [|discriminate].
    intros H. injection H as _ <- _. eapply Ext_trans; apply Ext_add; in_a.
  - intros H. injection H as _ <- _. apply Ext_refl.
Qed.

End Generic.

Lemma lift_ok {A} (m : bres A) r : lift m = COk r -> m = COk r.
Proof. destruct m; cbn [lift]; try discriminate. intros H. injection H as ->. reflexivity. Qed.

Lemma with_tbl_ok {E A} tbl (m : res E A) r : with_tbl tbl m = COk r -> m = COk r.
Proof. destruct m as [a|e [t|]| |]; cbn [with_tbl]; try discriminate; intros H; exact H. Qed.

Ltac step H :=
  lazymatch type of H with
  | bind _ _ = COk _ => let x := fresh "x" in let Hx := fresh "Hx" in apply bind_ok in H; destruct H as [x [Hx H]]; cbv beta in H
  | (let x := ?e in @?b x) = ?r => let y := fresh x in pose (y := e); change (b y = r) in H; cbv beta in H
  | (match ?p with pair _ _ => _ end) = COk _ => destruct p
  | with_tbl _ _ = COk _ => apply with_tbl_ok in H
  | lift _ = COk _ => apply lift_ok in H
  end.

Lemma bind_elim {E A B} (m : res E A) (f : A -> res E B) r (P : Prop) :
  (forall a, m = COk a -> f a = COk r -> P) -> bind m f = COk r -> P.
Proof. intros H Hb. apply bind_ok in Hb. destruct Hb as [a [H1 H2]]. exact (H a H1 H2). Qed.
Ltac bel := lazymatch goal with |- bind ?m ?f = COk ?r -> ?P => refine (@bind_elim _ _ _ m f r P _); cbv beta end.

(* the [Service] settings the generator manages with set (replace the last value) *)
Definition KSET : list str := [s2l "KillMode"; s2l "Type"; s2l "NotifyAccess"; s2l "SyslogIdentifier"; s2l "RemainAfterExit"].

Ltac in_kset := unfold KSET; cbn [In]; auto 10.

(* peel one constructor-like layer off the right-hand unit of an Ext goal *)
Ltac peel :=
  lazymatch goal with
  | |- Ext ?A ?K ?a ?a => apply Ext_refl
  | |- Ext ?A ?K ?a (unit_add ?b ?s _ _) => apply (Ext_trans A K a b); [|apply Ext_add; in_a]
  | |- Ext ?A ?K ?a (unit_set ?b SEC_S _ _) => apply (Ext_trans A K a b); [|apply Ext_set; first [assumption|in_kset]]
  | |- Ext ?A ?K ?a ?c =>
      match goal with
      | H : add_raw_exec ?b _ _ = COk c |- _ => apply (Ext_trans A K a b); [|eapply Ext_add_raw_exec; [|exact H]; in_a]
      end
  end.

Lemma lookup_last_value_vals a b sec k : vals a sec k = vals b sec k -> lookup_last_value a sec k = lookup_last_value b sec k.
Proof. unfold lookup_last_value, vals. intros ->. reflexivity. Qed.

Lemma lk_none_inv {E} u sec k : @lk E u sec k = COk None -> lookup_last_value u sec k = None.
Proof.
  unfold lk, lookup_last. destruct (lookup_last_value u sec k); [|reflexivity]. cbn [option_map].
  destruct (unquote_or_panic l); discriminate.
Qed.

Lemma lk_some_inv {E} u sec k v : @lk E u sec k = COk (Some v) -> exists raw, lookup_last_value u sec k = Some raw /\ unquote_value raw = Some v.
Proof.
  unfold lk, lookup_last. destruct (lookup_last_value u sec k) as [raw|]; [|discriminate]. cbn [option_map].
  unfold unquote_or_panic. destruct (unquote_value raw) eqn:E1; [|discriminate]. intros H. injection H as ->. exists raw. split; [reflexivity|exact E1].
Qed.

Section Segs.
Variables (podman : str) (exists_path : str -> bool) (kill_fixed mount_nl : bool).
Variable K : list str.

Lemma Ext_ct_service u path svc cname penv base svc' :
  In (s2l "KillMode") K \/ (kill_fixed = true /\ lookup_last_value svc SEC_S (s2l "KillMode") <> None) ->
  ct_service podman kill_fixed u path svc = COk (cname, penv, base, svc') -> Ext ACT K svc svc'.
Proof.
  intros HK. unfold ct_service. cbv zeta.
  bel. intros cn _. bel. intros km Hkm. bel. intros svc1 H1. bel. intros b _. bel. intros svc2 H2. bel. intros svc3 H3.
  intros H. injection H as _ _ _ <-.
  do 3 peel. destruct km as [k|].
  - destruct (_ || _); [|discriminate]. injection H1 as <-. destruct HK as [HK|[-> _]]; [destruct kill_fixed|]; repeat peel.
  - injection H1 as <-. destruct HK as [HK|[_ HK]]; [repeat peel|]. exfalso. apply HK.
    apply lk_none_inv in Hkm. rewrite <- Hkm. apply lookup_last_value_vals. rewrite vals_unit_add. cbn. rewrite app_nil_r. reflexivity.
Qed.

Lemma Ext_ct_run_head u base cname svc args svc' :
  ct_run_head u base cname svc = COk (args, svc') -> Ext ACT K svc svc'.
Proof.
  unfold ct_run_head. cbv zeta.
  bel. intros a1 _. bel. intros cg _. bel. intros a2 _. bel. intros a3 _.
  intros H. injection H as _ <-. repeat peel.
Qed.

Lemma Ext_ct_net_notify u tbl args svc args' svc' :
  In (s2l "SyslogIdentifier") K \/ lookup_last_value u SEC_S (s2l "SyslogIdentifier") <> None ->
  (In (s2l "Type") K /\ In (s2l "NotifyAccess") K) \/ @lk berr u SEC_S (s2l "Type") = COk (Some (s2l "oneshot")) ->
  ct_net_notify u tbl args svc = COk (args', svc') -> Ext ACT K svc svc'.
Proof.
  intros HS HT. unfold ct_net_notify. cbv zeta.
  bel. intros [a1 svc1] Hn. bel. intros stype Hst. bel. intros [a2 svc2] H3. bel. intros sysl Hsy.
  intros H. injection H as _ <-.
  assert (E1 : Ext ACT K svc svc1) by (eapply Ext_handle_networks; [solve_incl|exact Hn]).
  assert (E2 : Ext ACT K svc1 svc2).
  { destruct HT as [[HT1 HT2]|HT].
    - assert (N : forall f : option str -> list str,
               (@bind berr _ _ (lk u c_CONTAINER_SECTION (s2l "Notify")) (fun nt =>
                COk (f nt, unit_set (unit_set svc1 SEC_S (s2l "Type") (s2l "notify")) SEC_S (s2l "NotifyAccess") (s2l "all"))))
               = COk (a2, svc2) -> Ext ACT K svc1 svc2).
      { intros f. bel. intros nt _ HH. injection HH as _ <-. repeat peel. }
      destruct stype as [ty|].
      + destruct (str_eqb ty (s2l "oneshot")).
        * injection H3 as _ <-. apply Ext_refl.
        * destruct (str_eqb ty (s2l "notify")); [|discriminate]. eapply N. exact H3.
      + eapply N. exact H3.
    - rewrite HT in Hst. injection Hst as <-. cbn in H3. injection H3 as _ <-. apply Ext_refl. }
  apply (Ext_trans _ _ _ svc2); [apply (Ext_trans _ _ _ svc1); assumption|].
  destruct sysl as [s|]; [apply Ext_refl|]. destruct HS as [HS|HS]; [repeat peel|].
  exfalso. apply HS. apply lk_none_inv in Hsy. exact Hsy.
Qed.

(* the whole container converter: after the prologue, only extensions *)
Theorem container_run_ext u path tbl svc p tbl' i svc0 :
  prologue u path tbl TContainer a_SUPPORTED_CONTAINER_KEYS = COk (i, svc0) ->
  In (s2l "KillMode") K \/ (kill_fixed = true /\ lookup_last_value (rename_own svc0 TContainer) SEC_S (s2l "KillMode") <> None) ->
  In (s2l "SyslogIdentifier") K \/ lookup_last_value u SEC_S (s2l "SyslogIdentifier") <> None ->
  (In (s2l "Type") K /\ In (s2l "NotifyAccess") K) \/ @lk berr u SEC_S (s2l "Type") = COk (Some (s2l "oneshot")) ->
  from_container podman exists_path kill_fixed mount_nl u path tbl = COk (svc, p, tbl') ->
  Ext ACT K (rename_own svc0 TContainer) svc.
Proof.
  intros Hp HKm HSy HTy. unfold from_container. cbv zeta. rewrite Hp. cbn [bind]. intros H.
  apply lift_ok in H. revert H.
  bel. intros image0 _. bel. intros rootfs0 _.
  set (image := match image0 with Some s => s | None => [] end). set (rootfs := match rootfs0 with Some s => s | None => [] end).
  clearbody image rootfs.
  destruct image as [|c im], rootfs as [|d rf]; try discriminate.
  all: bel; intros [image1 svc1] H1; bel; intros [[[cname penv] base] svc2] H2; bel; intros [a3 svc3] H3;
    bel; intros [a4 svc4] H4; bel; intros a5 _; bel; intros [a6 svc6] H6; bel; intros a7 _; bel; intros [a8 svc8] H8;
    bel; intros a9 _; bel; intros [[a10 svc10] tbl10] H10; intros H; apply with_tbl_ok in H; revert H;
    bel; intros svc11 H11; intros H; injection H as <- _ _;
    assert (E1 : forall K', Ext ACT K' (rename_own svc0 TContainer) svc1) by
      (intros K'; first [injection H1 as _ <-; apply Ext_refl | eapply Ext_image_source; [solve_incl|exact H1]]);
    peel;
    (apply (Ext_trans _ _ _ svc8); [|eapply Ext_handle_pod; [solve_incl|exact H10]]);
    (apply (Ext_trans _ _ _ svc6); [|eapply Ext_mounts_loop; [solve_incl|exact H8]]);
    (apply (Ext_trans _ _ _ svc4); [|eapply Ext_handle_volumes; [solve_incl|exact H6]]);
    (apply (Ext_trans _ _ _ svc3); [|eapply Ext_ct_net_notify; [exact HSy|exact HTy|exact H4]]);
    (apply (Ext_trans _ _ _ svc2); [|eapply Ext_ct_run_head; exact H3]);
    (apply (Ext_trans _ _ _ svc1); [exact (E1 K)|eapply Ext_ct_service; [|exact H2]]).
  all: destruct HKm as [HKm|[Hkf HKm]]; [left; exact HKm|right; split; [exact Hkf|]].
  all: intros X; apply HKm; rewrite <- X; apply lookup_last_value_vals.
  all: destruct (E1 [] SEC_S (s2l "KillMode")) as [post [Ev Hpost]]; [intros _ Hin; exact Hin|].
  all: rewrite Ev, Hpost; [symmetry; apply app_nil_r|]; cbv [ACT ABASE app]; cbn [In]; intros Hin;
       repeat (destruct Hin as [Hin|Hin]; [discriminate Hin|]); exact Hin.
Qed.
End Segs.

(* ---- the prologue: copy, default dependencies first, SourcePath, then the own sections renamed ---- *)
Lemma names_add_entry u sec k raw : map fst (add_entry u sec k raw) = if existsb (str_eqb sec) (map fst u) then map fst u else map fst u ++ [sec].
Proof.
  induction u as [|[n es] r IH]; cbn [add_entry map fst existsb]; [reflexivity|].
  destruct (str_eqb_spec sec n) as [->|Hne]; cbn [map fst orb]; [reflexivity|].
  rewrite IH. destruct (existsb (str_eqb sec) (map fst r)); reflexivity.
Qed.

Lemma existsb_str_in sec l : existsb (str_eqb sec) l = true <-> In sec l.
Proof.
  rewrite existsb_exists. split.
  - intros [x [Hx He]]. destruct (str_eqb_spec sec x); [subst; exact Hx|discriminate].
  - intros H. exists sec. split; [exact H|apply str_eqb_refl].
Qed.

Lemma NoDup_app_snoc {A} (l : list A) x : NoDup l -> ~ In x l -> NoDup (l ++ [x]).
Proof.
  intros H Hn. induction H as [|y l Hy Hl IH]; cbn [app]; [constructor; [intros []|constructor]|].
  constructor.
  - intros Hin. apply in_app_or in Hin. destruct Hin as [Hin|[->|[]]]; [exact (Hy Hin)|]. apply Hn. left. reflexivity.
  - apply IH. intros Hin. apply Hn. right. exact Hin.
Qed.

Lemma nodup_add_entry u sec k raw : NoDup (map fst u) -> NoDup (map fst (add_entry u sec k raw)).
Proof.
  intros H. rewrite names_add_entry. destruct (existsb (str_eqb sec) (map fst u)) eqn:E; [exact H|].
  apply NoDup_app_snoc; [exact H|]. intros Hin. apply existsb_str_in in Hin. congruence.
Qed.

Lemma nodup_add_entries es : forall u sec, NoDup (map fst u) -> NoDup (map fst (add_entries u sec es)).
Proof.
  unfold add_entries. induction es as [|e r IH]; intros u sec H; cbn [fold_left]; [exact H|].
  apply IH. apply nodup_add_entry. exact H.
Qed.

Lemma nodup_merge_from d : forall u, NoDup (map fst u) -> NoDup (map fst (merge_from u d)).
Proof.
  unfold merge_from. induction d as [|s r IH]; intros u H; cbn [fold_left]; [exact H|].
  apply IH. apply nodup_add_entries. exact H.
Qed.

Lemma vals_merge_copy u sec k : NoDup (map fst u) -> vals (merge_from [] u) sec k = vals u sec k.
Proof. intros H. unfold vals. rewrite dropin_history by exact H. reflexivity. Qed.

Lemma section_entries_remove_other u sec sec' : sec' <> sec -> section_entries (remove_section u sec) sec' = section_entries u sec'.
Proof.
  intros Hne. induction u as [|[n es] r IH]; cbn [remove_section]; [reflexivity|].
  destruct (str_eqb_spec sec n) as [->|Hn].
  - rewrite section_entries_cons_other by exact Hne. reflexivity.
  - destruct (str_eqb_spec sec' n) as [->|Hn'].
    + rewrite !section_entries_cons_same. reflexivity.
    + rewrite !section_entries_cons_other by exact Hn'. exact IH.
Qed.

Lemma names_remove_notin u sec : NoDup (map fst u) -> ~ In sec (map fst (remove_section u sec)).
Proof.
  induction u as [|[n es] r IH]; cbn [remove_section map fst]; intros H; [intros []|].
  inversion H as [|? ? Hn Hr]; subst. destruct (str_eqb_spec sec n) as [->|Hne]; [exact Hn|].
  cbn [map fst]. intros [Heq|Hin]; [congruence|]. exact (IH Hr Hin).
Qed.

Lemma section_entries_app_notin (a b : unit) sec : ~ In sec (map fst a) -> section_entries (a ++ b) sec = section_entries b sec.
Proof.
  intros H. induction a as [|[n es] r IH]; cbn [app]; [reflexivity|].
  rewrite section_entries_cons_other; [apply IH; intros X; apply H; right; exact X|]. intros ->. apply H. left. reflexivity.
Qed.

Lemma section_entries_app_in (a b : unit) sec : In sec (map fst a) -> section_entries (a ++ b) sec = section_entries a sec.
Proof.
  induction a as [|[n es] r IH]; cbn [app map fst]; [intros []|]. intros H.
  destruct (str_eqb_spec sec n) as [->|Hne].
  - rewrite !section_entries_cons_same. reflexivity.
  - rewrite !section_entries_cons_other by exact Hne. apply IH. destruct H as [H|H]; [congruence|exact H].
Qed.

Lemma section_entries_in_or_nil (a : unit) sec : In sec (map fst a) \/ section_entries a sec = [].
Proof.
  induction a as [|[n es] r [IH|IH]]; [right; reflexivity| |].
  - left. right. exact IH.
  - destruct (str_eqb_spec sec n) as [->|Hne]; [left; left; reflexivity|]. right. rewrite section_entries_cons_other by exact Hne. exact IH.
Qed.

Lemma vals_prepend u sec k v sec' k' : NoDup (map fst u) ->
  vals (unit_prepend u sec k v) sec' k' = (if str_eqb sec' sec && str_eqb k k' then [quote_value v] else []) ++ vals u sec' k'.
Proof.
  intros Hnd. unfold vals, values_raw, unit_prepend. destruct (str_eqb_spec sec' sec) as [->|Hne]; cbn [andb].
  - rewrite section_entries_app_notin by (apply names_remove_notin; exact Hnd).
    rewrite section_entries_cons_same. cbn [filter]. unfold key_is at 1. cbn [fst].
    destruct (str_eqb k k'); reflexivity.
  - cbn [app]. destruct (section_entries_in_or_nil (remove_section u sec) sec') as [Hin|Hnil].
    + rewrite section_entries_app_in by exact Hin. rewrite section_entries_remove_other by exact Hne. reflexivity.
    + assert (Hn : ~ In sec' (map fst (remove_section u sec)) \/ In sec' (map fst (remove_section u sec))).
      { destruct (existsb (str_eqb sec') (map fst (remove_section u sec))) eqn:E; [right; apply existsb_str_in; exact E|].
        left. intros X. apply existsb_str_in in X. congruence. }
      destruct Hn as [Hn|Hn].
      * rewrite section_entries_app_notin by exact Hn. rewrite section_entries_cons_other by exact Hne.
        rewrite section_entries_remove_other in Hnil by exact Hne. rewrite Hnil. reflexivity.
      * rewrite section_entries_app_in by exact Hn. rewrite section_entries_remove_other by exact Hne. reflexivity.
Qed.

Lemma nodup_remove u sec : NoDup (map fst u) -> NoDup (map fst (remove_section u sec)).
Proof.
  induction u as [|[n es] r IH]; cbn [remove_section map fst]; intros H; [constructor|].
  inversion H as [|? ? Hn Hr]; subst. destruct (str_eqb sec n); [exact Hr|]. cbn [map fst]. constructor; [|apply IH; exact Hr].
  intros Hin. apply Hn. clear -Hin. induction r as [|[m ms] r IH]; simpl in *; [exact Hin|].
  destruct (str_eqb sec m); [right; exact Hin|]. simpl in Hin. destruct Hin as [Heq|Hin]; [left; exact Heq|right; apply IH; exact Hin].
Qed.

Lemma nodup_prepend u sec k v : NoDup (map fst u) -> NoDup (map fst (unit_prepend u sec k v)).
Proof.
  intros H. unfold unit_prepend. rewrite map_app. cbn [map fst]. apply NoDup_app_snoc; [apply nodup_remove; exact H|].
  apply names_remove_notin. exact H.
Qed.

(* ---- rename_section ---- *)
Lemma has_section_false u sec : has_section u sec = false -> section_entries u sec = [].
Proof. unfold has_section, section_entries. destruct (assoc_str sec u); [discriminate|reflexivity]. Qed.

Lemma sec_rename_other u from to sec' : sec' <> from -> sec' <> to ->
  section_entries (rename_section u from to) sec' = section_entries u sec'.
Proof.
  intros H1 H2. unfold rename_section. destruct (has_section u from); [|reflexivity].
  rewrite section_entries_add_entries_other by exact H2. apply section_entries_remove_other. exact H1.
Qed.

Lemma sec_rename_to u from to : from <> to ->
  section_entries (rename_section u from to) to = section_entries u to ++ section_entries u from.
Proof.
  intros Hne. unfold rename_section. destruct (has_section u from) eqn:E.
  - rewrite section_entries_add_entries_same. rewrite section_entries_remove_other by (intros X; apply Hne; symmetry; exact X). reflexivity.
  - rewrite (has_section_false _ _ E), app_nil_r. reflexivity.
Qed.

Lemma sec_rename_from u from to : NoDup (map fst u) -> from <> to -> section_entries (rename_section u from to) from = [].
Proof.
  intros Hnd Hne. unfold rename_section. destruct (has_section u from) eqn:E.
  - rewrite section_entries_add_entries_other by exact Hne. apply section_entries_notin. apply names_remove_notin. exact Hnd.
  - apply has_section_false. exact E.
Qed.

Lemma nodup_rename u from to : NoDup (map fst u) -> NoDup (map fst (rename_section u from to)).
Proof.
  intros H. unfold rename_section. destruct (has_section u from); [|exact H]. apply nodup_add_entries. apply nodup_remove. exact H.
Qed.

Lemma vals_rename_own svc t sec k : ~ In sec (hidden t) -> vals (rename_own svc t) sec k = vals svc sec k.
Proof.
  intros H. unfold vals, values_raw, rename_own. unfold hidden in H. cbn [In] in H.
  rewrite !sec_rename_other; [reflexivity| | | |]; intros ->; apply H; auto.
Qed.

(* ---- what the prologue leaves: the user's unit, the default dependencies in front of [Unit] After/Wants, SourcePath behind ---- *)
Definition NOT := s2l "network-online.target".

Definition Shape0 (u svc : unit) : Prop :=
  forall sec k, exists pre post, vals svc sec k = pre ++ vals u sec k ++ post
    /\ (sec <> SEC_U -> pre = [] /\ post = [])
    /\ (~ In (sec, k) ABASE -> post = [])
    /\ (pre = [] \/ (sec = SEC_U /\ (k = s2l "After" \/ k = s2l "Wants") /\ pre = [NOT])).

Lemma quote_NOT : quote_value NOT = NOT.
Proof. vm_compute. reflexivity. Qed.

Lemma shape_default_dependencies u : NoDup (map fst u) ->
  NoDup (map fst (default_dependencies (merge_from [] u))) /\
  forall sec k, exists pre, vals (default_dependencies (merge_from [] u)) sec k = pre ++ vals u sec k
    /\ (sec <> SEC_U -> pre = [])
    /\ (pre = [] \/ (sec = SEC_U /\ (k = s2l "After" \/ k = s2l "Wants") /\ pre = [NOT])).
Proof.
  intros Hnd. assert (Hm : NoDup (map fst (merge_from [] u))) by (apply nodup_merge_from; constructor).
  unfold default_dependencies. destruct (match lookup_bool _ _ _ with Some b => b | None => true end).
  - split; [apply nodup_prepend, nodup_prepend; exact Hm|]. intros sec k.
    rewrite vals_prepend by (apply nodup_prepend; exact Hm). rewrite vals_prepend by exact Hm.
    rewrite vals_merge_copy by exact Hnd. fold NOT. rewrite !quote_NOT.
    destruct (str_eqb_spec sec SEC_U) as [->|Hne]; cbn [andb].
    + destruct (str_eqb_spec (s2l "Wants") k) as [Hw|Hw]; destruct (str_eqb_spec (s2l "After") k) as [Ha|Ha].
      * rewrite <- Hw in Ha. discriminate Ha.
      * exists [NOT]. split; [reflexivity|]. split; [congruence|]. right. auto.
      * exists [NOT]. split; [reflexivity|]. split; [congruence|]. right. auto.
      * exists []. split; [reflexivity|]. split; [reflexivity|]. left. reflexivity.
    + exists []. split; [reflexivity|]. split; [reflexivity|]. left. reflexivity.
  - split; [exact Hm|]. intros sec k. exists []. rewrite vals_merge_copy by exact Hnd. split; [reflexivity|]. split; [reflexivity|]. left. reflexivity.
Qed.

Lemma shape_prologue u path tbl t supp i svc0 : NoDup (map fst u) ->
  prologue u path tbl t supp = COk (i, svc0) -> Shape0 u svc0 /\ NoDup (map fst svc0).
Proof.
  intros Hnd. unfold prologue. destruct (file_name path); [|discriminate]. destruct (tbl_get tbl l); [|discriminate].
  cbv zeta. bel. intros ? _. bel. intros ? _. bel. intros ? _. bel. intros ? _. intros H. injection H as _ <-.
  destruct (shape_default_dependencies u Hnd) as [Hn Hs]. destruct path as [|c path'].
  - split; [|exact Hn]. intros sec k. destruct (Hs sec k) as [pre [E [P1 P2]]]. exists pre, []. rewrite app_nil_r.
    split; [exact E|]. split; [intros X; split; [apply P1; exact X|reflexivity]|]. split; [reflexivity|exact P2].
  - split; [|apply nodup_add_entry; exact Hn]. intros sec k. destruct (Hs sec k) as [pre [E [P1 P2]]].
    rewrite vals_unit_add, E. eexists pre, _. split; [rewrite <- app_assoc; reflexivity|].
    split; [|split; [|exact P2]].
    + intros X. split; [apply P1; exact X|]. destruct (str_eqb_spec sec SEC_U); [contradiction|reflexivity].
    + intros X. destruct (str_eqb_spec sec SEC_U) as [->|]; [|reflexivity].
      destruct (str_eqb_spec (s2l "SourcePath") k) as [<-|]; [|reflexivity]. exfalso. apply X. unfold ABASE; cbn [In]; auto 10.
Qed.

(* ---- composition: prologue shape, then extensions ---- *)
Definition PassThrough (A : list (str * str)) (K : list str) (t : qtype) (u svc : unit) : Prop :=
  forall sec k, ~ In sec (hidden t) -> (sec = SEC_S -> ~ In k K) ->
    exists pre post, vals svc sec k = pre ++ vals u sec k ++ post
      /\ (~ In (sec, k) A -> post = [])
      /\ (pre = [] \/ (sec = SEC_U /\ (k = s2l "After" \/ k = s2l "Wants") /\ pre = [NOT])).

Lemma passthrough_of A K t u svc0 svc : incl ABASE A -> Shape0 u svc0 -> Ext A K (rename_own svc0 t) svc -> PassThrough A K t u svc.
Proof.
  intros HA Hs He sec k Hh Hk. destruct (He sec k Hk) as [post2 [E2 P2]]. destruct (Hs sec k) as [pre [post1 [E1 [_ [P1 P3]]]]].
  exists pre, (post1 ++ post2). split; [|split; [|exact P3]].
  - rewrite E2, vals_rename_own by exact Hh. rewrite E1, <- !app_assoc. reflexivity.
  - intros X. rewrite (P2 X), P1; [reflexivity|]. intros Y. apply X. apply HA. exact Y.
Qed.

Definition OnlyUS (A : list (str * str)) : Prop := forall s k, In (s, k) A -> s = SEC_U \/ s = SEC_S.

Lemma onlyus_lists : OnlyUS ACT /\ OnlyUS AKUBE /\ OnlyUS APOD /\ OnlyUS AONE /\ OnlyUS ABUILD.
Proof.
  repeat split; intros s k H; cbv [ACT AKUBE APOD AONE ABUILD ABASE app] in H; cbn [In] in H;
    repeat (destruct H as [H|H]; [injection H as <- _; auto|]); destruct H.
Qed.

Lemma hidden_facts t :
  type_section t <> type_xsection t /\ type_section t <> SEC_Q /\ type_section t <> c_X_QUADLET_SECTION /\
  type_xsection t <> SEC_Q /\ type_xsection t <> c_X_QUADLET_SECTION /\ SEC_Q <> c_X_QUADLET_SECTION /\
  type_section t <> SEC_U /\ type_section t <> SEC_S /\ type_xsection t <> SEC_U /\ type_xsection t <> SEC_S /\
  SEC_Q <> SEC_U /\ SEC_Q <> SEC_S /\ c_X_QUADLET_SECTION <> SEC_U /\ c_X_QUADLET_SECTION <> SEC_S.
Proof. destruct t; repeat split; discriminate. Qed.

Lemma vals_of_entries u sec k : vals u sec k = map snd (filter (key_is k) (section_entries u sec)).
Proof. reflexivity. Qed.

(* the unit's own section and [Quadlet] are kept verbatim as X-<name> (after whatever the user already had there), and are gone under their own names *)
Definition OwnKept (t : qtype) (u svc : unit) : Prop :=
  forall k,
    vals svc (type_xsection t) k = vals u (type_xsection t) k ++ vals u (type_section t) k /\
    vals svc c_X_QUADLET_SECTION k = vals u c_X_QUADLET_SECTION k ++ vals u SEC_Q k /\
    vals svc (type_section t) k = [] /\ vals svc SEC_Q k = [].

Lemma ownkept_of A K t u svc0 svc : OnlyUS A -> NoDup (map fst svc0) -> Shape0 u svc0 -> Ext A K (rename_own svc0 t) svc -> OwnKept t u svc.
Proof.
  intros HO Hnd Hs He k.
  destruct (hidden_facts t) as (F1 & F2 & F3 & F4 & F5 & F6 & F7 & F8 & F9 & F10 & F11 & F12 & F13 & F14).
  assert (Hu : forall sec k, sec <> SEC_U -> vals svc0 sec k = vals u sec k).
  { intros sec k0 Hne. destruct (Hs sec k0) as [pre [post [E [P _]]]]. destruct (P Hne) as [-> ->]. rewrite E, app_nil_r. reflexivity. }
  assert (Hx : forall sec k, sec <> SEC_U -> sec <> SEC_S -> vals svc sec k = vals (rename_own svc0 t) sec k).
  { intros sec k0 H1 H2. destruct (He sec k0) as [post [E P]]; [intros X; contradiction|]. rewrite E, P, app_nil_r; [reflexivity|].
    intros X. destruct (HO _ _ X); contradiction. }
  rewrite !Hx by assumption. unfold rename_own. rewrite !vals_of_entries.
  repeat split.
  - rewrite sec_rename_other by assumption. rewrite sec_rename_to by assumption. rewrite filter_app, map_app.
    rewrite <- !vals_of_entries, !Hu by assumption. reflexivity.
  - rewrite sec_rename_to by assumption. rewrite !sec_rename_other by (try assumption; intros X; symmetry in X; contradiction).
    rewrite filter_app, map_app. rewrite <- !vals_of_entries, !Hu by assumption. reflexivity.
  - rewrite sec_rename_other by assumption. rewrite sec_rename_from by assumption. reflexivity.
  - rewrite sec_rename_from; [reflexivity|apply nodup_rename; exact Hnd|assumption].
Qed.

(* ---- the container converter ---- *)
Section ContainerRun.
Variables (podman : str) (exists_path : str -> bool) (kill_fixed mount_nl : bool).

Lemma incl_base_act : incl ABASE ACT.  Proof. solve_incl. Qed.

Theorem container_passthrough u path tbl svc p tbl' : NoDup (map fst u) ->
  from_container podman exists_path kill_fixed mount_nl u path tbl = COk (svc, p, tbl') ->
  PassThrough ACT KSET TContainer u svc /\ OwnKept TContainer u svc.
Proof.
  intros Hnd H. assert (H' := H). unfold from_container in H'. revert H'. cbv zeta. bel. intros [i svc0] Hp _.
  destruct (shape_prologue _ _ _ _ _ _ _ Hnd Hp) as [Hs Hn0].
  assert (He : Ext ACT KSET (rename_own svc0 TContainer) svc).
  { eapply container_run_ext; [exact Hp| | | |exact H]; [left|left|left; split]; in_kset. }
  split; [eapply passthrough_of; [exact incl_base_act|exact Hs|exact He]|].
  eapply ownkept_of; [exact (proj1 onlyus_lists)|exact Hn0|exact Hs|exact He].
Qed.
End ContainerRun.

Lemma passthrough_exact A K t u svc sec k : PassThrough A K t u svc ->
  ~ In sec (hidden t) -> (sec = SEC_S -> ~ In k K) -> ~ In (sec, k) A -> sec <> SEC_U \/ (k <> s2l "After" /\ k <> s2l "Wants") ->
  vals svc sec k = vals u sec k.
Proof.
  intros Hp Hh Hk Ha Hpre. destruct (Hp sec k Hh Hk) as [pre [post [E [P1 P2]]]]. rewrite E, (P1 Ha), app_nil_r.
  destruct P2 as [->|[Hs [Hk' _]]]; [reflexivity|]. exfalso. destruct Hpre as [Hpre|[H1 H2]]; [contradiction|]. destruct Hk'; contradiction.
Qed.

(* ---- one-shot units: set_if_absent ---- *)
Section OneShot.
Variable A : list (str * str).
Variable K : list str.

Lemma Ext_set_if_absent svc key v svc' :
  In key K \/ lookup_last_value svc SEC_S key <> None -> set_if_absent svc key v = COk svc' -> Ext A K svc svc'.
Proof.
  intros HK. unfold set_if_absent. bel. intros o Ho H. injection H as <-. destruct o; [apply Ext_refl|].
  destruct HK as [HK|HK]; [peel; apply Ext_refl|]. exfalso. apply HK. apply lk_none_inv in Ho. exact Ho.
Qed.

Lemma set_if_absent_other svc key v svc' k : key <> k -> set_if_absent svc key v = COk svc' -> vals svc' SEC_S k = vals svc SEC_S k.
Proof.
  intros Hne. unfold set_if_absent. bel. intros o _ H. injection H as <-. destruct o; [reflexivity|]. apply vals_set_other_key. exact Hne.
Qed.

Lemma Ext_one_shot svc remain svc' :
  In (s2l "SyslogIdentifier") K \/ lookup_last_value svc SEC_S (s2l "SyslogIdentifier") <> None ->
  In (s2l "Type") K \/ lookup_last_value svc SEC_S (s2l "Type") <> None ->
  In (s2l "RemainAfterExit") K \/ lookup_last_value svc SEC_S (s2l "RemainAfterExit") <> None ->
  one_shot_section svc remain = COk svc' -> Ext A K svc svc'.
Proof.
  intros H1 H2 H3. unfold one_shot_section. bel. intros s1 E1. bel. intros s2 E2. intros E3.
  assert (X1 : Ext A K svc s1) by (eapply Ext_set_if_absent; [exact H1|exact E1]).
  assert (X2 : Ext A K s1 s2).
  { eapply Ext_set_if_absent; [|exact E2]. destruct H2 as [H2|H2]; [left; exact H2|right].
    intros Y. apply H2. rewrite <- Y. apply lookup_last_value_vals. symmetry. eapply set_if_absent_other; [|exact E1]. sne. }
  apply (Ext_trans _ _ _ s2); [apply (Ext_trans _ _ _ s1); assumption|].
  destruct remain; [|injection E3 as <-; apply Ext_refl].
  eapply Ext_set_if_absent; [|exact E3]. destruct H3 as [H3|H3]; [left; exact H3|right].
  intros Y. apply H3. rewrite <- Y. apply lookup_last_value_vals.
  assert (Z1 : vals s1 SEC_S (s2l "RemainAfterExit") = vals svc SEC_S (s2l "RemainAfterExit")) by (eapply set_if_absent_other; [|exact E1]; sne).
  assert (Z2 : vals s2 SEC_S (s2l "RemainAfterExit") = vals s1 SEC_S (s2l "RemainAfterExit")) by (eapply set_if_absent_other; [|exact E2]; sne).
  rewrite Z2, Z1. reflexivity.
Qed.
End OneShot.

Lemma Ext_exact A a b sec k : Ext A [] a b -> ~ In (sec, k) A -> vals b sec k = vals a sec k.
Proof. intros He Hn. destruct (He sec k) as [post [E P]]; [intros _ []|]. rewrite E, (P Hn), app_nil_r. reflexivity. Qed.

Lemma cond_transfer A a b (K : list str) key : Ext A [] a b -> ~ In (SEC_S, key) A ->
  In key K \/ lookup_last_value a SEC_S key <> None -> In key K \/ lookup_last_value b SEC_S key <> None.
Proof.
  intros He Hn [H|H]; [left; exact H|right]. intros Y. apply H. rewrite <- Y. apply lookup_last_value_vals.
  symmetry. eapply Ext_exact; [exact He|exact Hn].
Qed.

Ltac notin_list := let X := fresh in intros X; cbv [ACT AKUBE APOD AONE ABUILD ABASE app] in X; cbn [In] in X;
                   repeat (destruct X as [X|X]; [vm_compute in X; discriminate X|]); exact X.

Lemma incl_base_one : incl ABASE AONE.  Proof. solve_incl. Qed.

(* the three conditions under which the one-shot [Service] settings are left alone *)
Definition OneShotOk (K : list str) (svc : unit) : Prop :=
  (In (s2l "SyslogIdentifier") K \/ lookup_last_value svc SEC_S (s2l "SyslogIdentifier") <> None) /\
  (In (s2l "Type") K \/ lookup_last_value svc SEC_S (s2l "Type") <> None) /\
  (In (s2l "RemainAfterExit") K \/ lookup_last_value svc SEC_S (s2l "RemainAfterExit") <> None).

Lemma oneshotok_transfer A K a b : Ext A [] a b ->
  ~ In (SEC_S, s2l "SyslogIdentifier") A -> ~ In (SEC_S, s2l "Type") A -> ~ In (SEC_S, s2l "RemainAfterExit") A ->
  OneShotOk K a -> OneShotOk K b.
Proof. intros He N1 N2 N3 (H1 & H2 & H3). repeat split; eapply cond_transfer; eassumption. Qed.

Lemma Ext_one_shot' A K svc remain svc' : OneShotOk K svc -> one_shot_section svc remain = COk svc' -> Ext A K svc svc'.
Proof. intros (H1 & H2 & H3). apply Ext_one_shot; assumption. Qed.

Section OneShotRuns.
Variables (podman : str) (exists_path : str -> bool) (kill_fixed mount_nl : bool).
Variable K : list str.

Lemma Ext_image_body u svc0 svc' : OneShotOk K (rename_own svc0 TImage) ->
  image_body podman u svc0 = COk svc' -> Ext AONE K (rename_own svc0 TImage) svc'.
Proof.
  intros HO. unfold image_body. cbv zeta. bel. intros img _. destruct img as [[|c s]|]; try discriminate.
  bel. intros base _. bel. intros a1 _. bel. intros svc1 H1. intros H2.
  assert (E1 : forall K', Ext AONE K' (rename_own svc0 TImage) svc1) by (intros K'; repeat peel).
  apply (Ext_trans _ _ _ svc1); [apply E1|]. eapply Ext_one_shot'; [|exact H2].
  eapply oneshotok_transfer; [apply (E1 [])| | | |exact HO]; notin_list.
Qed.

Theorem image_run_ext u path tbl svc p tbl' i svc0 :
  prologue u path tbl TImage a_SUPPORTED_IMAGE_KEYS = COk (i, svc0) -> OneShotOk K (rename_own svc0 TImage) ->
  from_image podman u path tbl = COk (svc, p, tbl') -> Ext AONE K (rename_own svc0 TImage) svc.
Proof.
  intros Hp HO. unfold from_image. rewrite Hp. cbn [bind]. intros H. apply lift_ok in H. revert H.
  bel. intros svc1 H1. bel. intros rn _. destruct (file_name path); [|discriminate]. intros H. injection H as <- _ _.
  eapply Ext_image_body; eassumption.
Qed.

Lemma Ext_network_body u name svc0 svc' : OneShotOk K (rename_own svc0 TNetwork) ->
  network_body podman u name svc0 = COk svc' -> Ext AONE K (rename_own svc0 TNetwork) svc'.
Proof.
  intros HO. unfold network_body. cbv zeta.
  bel. intros base _. bel. intros a1 _. bel. intros a2 _. bel. intros sn _. bel. intros gw _. bel. intros rg _. bel. intros a3 _.
  bel. intros svc1 H1. intros H2.
  assert (E1 : forall K', Ext AONE K' (rename_own svc0 TNetwork) svc1) by (intros K'; repeat peel).
  apply (Ext_trans _ _ _ svc1); [apply E1|]. eapply Ext_one_shot'; [|exact H2].
  eapply oneshotok_transfer; [apply (E1 [])| | | |exact HO]; notin_list.
Qed.

Theorem network_run_ext u path tbl svc p tbl' i svc0 :
  prologue u path tbl TNetwork a_SUPPORTED_NETWORK_KEYS = COk (i, svc0) -> OneShotOk K (rename_own svc0 TNetwork) ->
  from_network podman u path tbl = COk (svc, p, tbl') -> Ext AONE K (rename_own svc0 TNetwork) svc.
Proof.
  intros Hp HO. unfold from_network. rewrite Hp. cbn [bind]. intros H. apply lift_ok in H. revert H.
  bel. intros nm _. bel. intros svc1 H1. destruct (file_name path); [|discriminate]. intros H. injection H as <- _ _.
  eapply Ext_network_body; eassumption.
Qed.

Lemma Ext_volume_body u name svc tbl svc' : OneShotOk K svc ->
  volume_body podman u name svc tbl = COk svc' -> Ext AONE K svc svc'.
Proof.
  intros HO. unfold volume_body. cbv zeta.
  bel. intros base _. bel. intros drv _. bel. intros [a1 svc1] H1. bel. intros svc2 H2. intros H3.
  assert (E1 : forall K', Ext AONE K' svc svc2).
  { intros K'. peel. revert H1. destruct (str_eqb _ _).
    - bel. intros img _. destruct img as [im|]; [|discriminate]. bel. intros [iname svcx] Hx. intros H. injection H as _ <-.
      apply (Ext_trans _ _ _ (unit_add svc SEC_U (s2l "RequiresMountsFor") (s2l "%t/containers"))); [peel; apply Ext_refl|].
      eapply Ext_image_source; [exact incl_base_one|exact Hx].
    - bel. intros usr _. bel. intros grp _. bel. intros dev _.
      destruct (match dev with Some (c :: s) => _ | _ => _ end) as [a2 dv]. bel. intros ty _. bel. intros a3 _. bel. intros mo _. bel. intros op _.
      intros H. injection H as _ <-. repeat peel. }
  apply (Ext_trans _ _ _ svc2); [apply E1|]. eapply Ext_one_shot'; [|exact H3].
  eapply oneshotok_transfer; [apply (E1 [])| | | |exact HO]; notin_list.
Qed.

Theorem volume_run_ext u path tbl svc p tbl' i svc0 :
  prologue u path tbl TVolume a_SUPPORTED_VOLUME_KEYS = COk (i, svc0) -> OneShotOk K (rename_own svc0 TVolume) ->
  from_volume podman u path tbl = COk (svc, p, tbl') -> Ext AONE K (rename_own svc0 TVolume) svc.
Proof.
  intros Hp HO. unfold from_volume. rewrite Hp. cbn [bind]. intros H. apply lift_ok in H. revert H. cbv zeta.
  bel. intros nm _. destruct (file_name path); [|discriminate]. intros H. apply with_tbl_ok in H. revert H.
  bel. intros svc1 H1. intros H. injection H as <- _ _.
  eapply Ext_volume_body; eassumption.
Qed.
End OneShotRuns.

Lemma incl_base_pod : incl ABASE APOD.  Proof. solve_incl. Qed.
Lemma incl_base_kube : incl ABASE AKUBE.  Proof. solve_incl. Qed.
Lemma incl_base_build : incl ABASE ABUILD.  Proof. solve_incl. Qed.

Section PodRun.
Variables (podman : str) (exists_path : str -> bool) (kill_fixed mount_nl : bool).
Variable K : list str.

Lemma Ext_pod_members l : forall svc,
  Ext APOD K svc (fold_left (fun s c => unit_add (unit_add s SEC_U (s2l "Wants") c) SEC_U (s2l "Before") c) l svc).
Proof.
  induction l as [|c r IH]; intros svc; cbn [fold_left]; [apply Ext_refl|].
  eapply Ext_trans; [|apply IH]. repeat peel.
Qed.

Theorem pod_run_ext u path tbl svc p tbl' i svc0 :
  prologue u path tbl TPod a_SUPPORTED_POD_KEYS = COk (i, svc0) ->
  In (s2l "SyslogIdentifier") K \/ lookup_last_value u SEC_S (s2l "SyslogIdentifier") <> None ->
  from_pod podman mount_nl u path tbl = COk (svc, p, tbl') -> Ext APOD K (rename_own svc0 TPod) svc.
Proof.
  intros Hp HS. unfold from_pod. cbv zeta. rewrite Hp. cbn [bind]. intros H. apply lift_ok in H. revert H.
  bel. intros pn _. bel. intros name _. bel. intros sysl Hsy. bel. intros base _.
  bel. intros svc1 H1. bel. intros svc2 H2. bel. intros svc3 H3. bel. intros a1 _. bel. intros a2 _.
  bel. intros [a3 svc4] H4. bel. intros a4 _. bel. intros a5 _. bel. intros [a6 svc6] H6. bel. intros svc7 H7.
  intros H. injection H as <- _ _.
  do 5 peel.
  apply (Ext_trans _ _ _ svc4); [|eapply Ext_handle_volumes; [exact incl_base_pod|exact H6]].
  apply (Ext_trans _ _ _ svc3); [|eapply Ext_handle_networks; [exact incl_base_pod|exact H4]].
  do 3 peel.
  match goal with |- Ext _ _ _ (match sysl with None => unit_set ?b _ _ _ | Some _ => _ end) =>
    apply (Ext_trans _ _ _ b); [|destruct sysl as [s|]; [apply Ext_refl|]] end.
  - eapply Ext_trans; [|apply Ext_pod_members]. repeat peel.
  - destruct HS as [HS|HS]; [peel; apply Ext_refl|]. exfalso. apply HS. apply lk_none_inv in Hsy. exact Hsy.
Qed.
End PodRun.

Lemma Ext_hswd A K u path svc t c svc' : In (SEC_S, s2l "WorkingDirectory") A ->
  handle_set_working_directory u path svc t = COk (c, svc') -> Ext A K svc svc'.
Proof.
  intros HA. unfold handle_set_working_directory. cbv zeta. bel. intros swd _.
  destruct swd as [[|c0 w]|]; try (intros H; injection H as _ <-; apply Ext_refl).
  bel. intros [ctx rel] _. destruct rel as [|r0 rel]; [intros H; injection H as _ <-; apply Ext_refl|].
  destruct (is_url ctx); [intros H; injection H as _ <-; apply Ext_refl|].
  bel. intros wd _. destruct wd as [[|w0 wd]|].
  1,3: bel; intros f _ H; injection H as _ <-; peel; apply Ext_refl.
  intros H; injection H as _ <-; apply Ext_refl.
Qed.

Section KubeRun.
Variables (podman : str) (exists_path : str -> bool) (kill_fixed mount_nl : bool).
Variable K : list str.

Theorem kube_run_ext u path tbl svc p tbl' i svc0 :
  prologue u path tbl TKube a_SUPPORTED_KUBE_KEYS = COk (i, svc0) ->
  In (s2l "KillMode") K \/ (kill_fixed = true /\ lookup_last_value (rename_own svc0 TKube) SEC_S (s2l "KillMode") <> None) ->
  In (s2l "SyslogIdentifier") K \/ has_key u SEC_S (s2l "SyslogIdentifier") = true ->
  from_kube podman kill_fixed u path tbl = COk (svc, p, tbl') -> Ext AKUBE K (rename_own svc0 TKube) svc.
Proof.
  intros Hp HKm HS. unfold from_kube. cbv zeta. rewrite Hp. cbn [bind]. intros H. apply lift_ok in H. revert H.
  bel. intros y _. destruct y as [[|c s]|]; try discriminate.
  bel. intros yaml _. bel. intros svc1 H1. bel. intros ty _. bel. intros base _. bel. intros ecp _. bel. intros a1 _. bel. intros a2 _.
  bel. intros [a3 svc3] H3. bel. intros cms _. bel. intros a4 _. bel. intros svc4 H4. bel. intros base2 _. bel. intros svc5 H5.
  bel. intros [ctx svc6] H6. intros H. injection H as <- _ _. cbn [snd].
  assert (E1 : Ext AKUBE K (rename_own svc0 TKube) svc1).
  { destruct kill_fixed.
    - revert H1. bel. intros km Hkm. destruct km as [k|].
      + destruct (_ || _); [|discriminate]. intros H. injection H as <-. apply Ext_refl.
      + intros H. injection H as <-. destruct HKm as [HKm|[_ HKm]]; [peel; apply Ext_refl|].
        exfalso. apply HKm. apply lk_none_inv in Hkm. exact Hkm.
    - injection H1 as <-. destruct HKm as [HKm|[HKm _]]; [peel; apply Ext_refl|discriminate]. }
  apply (Ext_trans _ _ _ svc5); [|eapply Ext_hswd; [|exact H6]; in_list].
  do 2 peel.
  match type of H3 with handle_networks _ _ ?M _ _ = _ =>
    apply (Ext_trans _ _ _ M); [|eapply Ext_handle_networks; [exact incl_base_kube|exact H3]] end.
  apply (Ext_trans _ _ _ svc1); [exact E1|].
  destruct (has_key u SEC_S (s2l "SyslogIdentifier")) eqn:Ehk.
  - destruct ty as [t|]; [destruct (str_eqb t (s2l "oneshot"))|]; repeat peel.
  - destruct HS as [HS|HS]; [|discriminate]. peel. destruct ty as [t|]; [destruct (str_eqb t (s2l "oneshot"))|]; repeat peel.
Qed.
End KubeRun.

Lemma Ext_one_shot_noremain A K svc svc' :
  In (s2l "SyslogIdentifier") K \/ lookup_last_value svc SEC_S (s2l "SyslogIdentifier") <> None ->
  In (s2l "Type") K \/ lookup_last_value svc SEC_S (s2l "Type") <> None ->
  one_shot_section svc false = COk svc' -> Ext A K svc svc'.
Proof.
  intros H1 H2. unfold one_shot_section. bel. intros s1 E1. bel. intros s2 E2. intros E3. injection E3 as <-.
  apply (Ext_trans _ _ _ s1); [eapply Ext_set_if_absent; [exact H1|exact E1]|].
  eapply Ext_set_if_absent; [|exact E2]. destruct H2 as [H2|H2]; [left; exact H2|right].
  intros Y. apply H2. rewrite <- Y. apply lookup_last_value_vals. symmetry. eapply set_if_absent_other; [|exact E1]. sne.
Qed.

Section BuildRun.
Variables (podman : str) (exists_path : str -> bool) (kill_fixed mount_nl : bool).
Variable K : list str.

(* the service unit before the body runs (from_build_unit has its own prologue, with RequiresMountsFor first) *)
Definition build_svc0 (u : unit) (path : str) : unit :=
  let svc := unit_add (default_dependencies (merge_from [] u)) SEC_U (s2l "RequiresMountsFor") (s2l "%t/containers") in
  match path with [] => svc | _ => unit_add svc SEC_U (s2l "SourcePath") path end.

Theorem build_run_ext u path tbl svc p tbl' :
  In (s2l "SyslogIdentifier") K \/ lookup_last_value (rename_own (build_svc0 u path) TBuild) SEC_S (s2l "SyslogIdentifier") <> None ->
  In (s2l "Type") K \/ lookup_last_value (rename_own (build_svc0 u path) TBuild) SEC_S (s2l "Type") <> None ->
  from_build podman mount_nl u path tbl = COk (svc, p, tbl') -> Ext ABUILD K (rename_own (build_svc0 u path) TBuild) svc.
Proof.
  intros HS HT. unfold from_build. destruct (file_name path); [|discriminate]. destruct (tbl_get tbl l); [|discriminate].
  destruct (i_resource_name i); [discriminate|]. cbv zeta. fold (build_svc0 u path).
  bel. intros q1 _. bel. intros q2 _. bel. intros q3 _. bel. intros q4 _. intros H. apply lift_ok in H. revert H.
  bel. intros base _. bel. intros pull _. bel. intros a1 _. bel. intros a2 _. bel. intros [a3 svc3] H3. bel. intros [a4 svc4] H4.
  bel. intros [ctx svc5] H5. bel. intros wd _. bel. intros fp _. bel. intros [wdir fpath] _. bel. intros a5 _.
  bel. intros svc6 H6. bel. intros svc7 H7. intros H. injection H as <- _ _.
  assert (E1 : forall K', Ext ABUILD K' (rename_own (build_svc0 u path) TBuild) svc6).
  { intros K'. peel.
    apply (Ext_trans _ _ _ svc4); [|eapply Ext_hswd; [|exact H5]; in_list].
    apply (Ext_trans _ _ _ svc3); [|eapply Ext_handle_volumes; [exact incl_base_build|exact H4]].
    eapply Ext_handle_networks; [exact incl_base_build|exact H3]. }
  apply (Ext_trans _ _ _ svc6); [apply E1|].
  eapply Ext_one_shot_noremain; [| |exact H7]; (eapply cond_transfer; [apply (E1 [])|notin_list|assumption]).
Qed.

Lemma shape_build u path : NoDup (map fst u) -> Shape0 u (build_svc0 u path) /\ NoDup (map fst (build_svc0 u path)).
Proof.
  intros Hnd. destruct (shape_default_dependencies u Hnd) as [Hn Hs]. unfold build_svc0. cbv zeta.
  assert (G : forall extra : list str -> list str,
            True -> forall svc, (forall sec k, vals svc sec k = vals (default_dependencies (merge_from [] u)) sec k
                          ++ (if str_eqb sec SEC_U && str_eqb (s2l "RequiresMountsFor") k then [quote_value (s2l "%t/containers")] else [])
                          ++ (if str_eqb sec SEC_U && str_eqb (s2l "SourcePath") k then extra [] else [])) -> Shape0 u svc).
  { intros extra _ svc Hv sec k. destruct (Hs sec k) as [pre [E [P1 P2]]]. rewrite Hv, E. eexists pre, _. split; [rewrite <- app_assoc; reflexivity|].
    split; [|split; [|exact P2]].
    - intros X. split; [apply P1; exact X|]. destruct (str_eqb_spec sec SEC_U); [contradiction|reflexivity].
    - intros X. destruct (str_eqb_spec sec SEC_U) as [->|]; [|reflexivity]. cbn [andb].
      destruct (str_eqb_spec (s2l "RequiresMountsFor") k) as [<-|]; [exfalso; apply X; unfold ABASE; cbn [In]; auto 10|].
      destruct (str_eqb_spec (s2l "SourcePath") k) as [<-|]; [exfalso; apply X; unfold ABASE; cbn [In]; auto 10|reflexivity]. }
  destruct path as [|c path'].
  - split; [|apply nodup_add_entry; exact Hn]. apply (G (fun _ => []) I). intros sec k. rewrite vals_unit_add.
    destruct (str_eqb sec SEC_U && str_eqb (s2l "SourcePath") k); rewrite app_nil_r; reflexivity.
  - split; [|apply nodup_add_entry, nodup_add_entry; exact Hn]. apply (G (fun _ => [quote_value (c :: path')]) I). intros sec k.
    rewrite !vals_unit_add, <- app_assoc. reflexivity.
Qed.
End BuildRun.

(* ---- all converters ---- *)
Lemma incl_base_A t : incl ABASE (A_of t).
Proof. destruct t; cbn [A_of]; solve_incl. Qed.

Lemma onlyus_A t : OnlyUS (A_of t).
Proof. destruct onlyus_lists as (O1 & O2 & O3 & O4 & O5). destruct t; assumption. Qed.

Lemma service_not_hidden t : ~ In SEC_S (hidden t).
Proof. destruct (hidden_facts t) as (F1 & F2 & F3 & F4 & F5 & F6 & F7 & F8 & F9 & F10 & F11 & F12 & F13 & F14).
  unfold hidden. cbn [In]. intros [X|[X|[X|[X|[]]]]]; congruence. Qed.

Lemma lookup_svc0 t u svc0 key : Shape0 u svc0 ->
  lookup_last_value (rename_own svc0 t) SEC_S key = lookup_last_value u SEC_S key.
Proof.
  intros Hs. apply lookup_last_value_vals. rewrite vals_rename_own by apply service_not_hidden.
  destruct (Hs SEC_S key) as [pre [post [E [P _]]]]. destruct P as [-> ->]; [discriminate|]. rewrite E, app_nil_r. reflexivity.
Qed.

(* which of the managed [Service] settings the user has chosen (so that the generator must leave them alone) *)
Record choices := { ch_killmode : bool; ch_syslog : bool; ch_type : bool; ch_remain : bool }.

Definition K_of (c : choices) : list str :=
  (if ch_killmode c then [] else [s2l "KillMode"]) ++ (if ch_syslog c then [] else [s2l "SyslogIdentifier"]) ++
  (if ch_type c then [] else [s2l "Type"; s2l "NotifyAccess"]) ++ (if ch_remain c then [] else [s2l "RemainAfterExit"]).

(* the choices are real: the user's unit has a non-empty last assignment (for a container's Type: it is oneshot) *)
Definition chosen (kill_fixed : bool) (t : qtype) (u : unit) (c : choices) : Prop :=
  (ch_killmode c = true -> kill_fixed = true /\ lookup_last_value u SEC_S (s2l "KillMode") <> None) /\
  (ch_syslog c = true -> lookup_last_value u SEC_S (s2l "SyslogIdentifier") <> None /\ has_key u SEC_S (s2l "SyslogIdentifier") = true) /\
  (ch_type c = true -> match t with
                       | TContainer => @lk berr u SEC_S (s2l "Type") = COk (Some (s2l "oneshot"))
                       | TKube | TPod => False
                       | _ => lookup_last_value u SEC_S (s2l "Type") <> None
                       end) /\
  (ch_remain c = true -> lookup_last_value u SEC_S (s2l "RemainAfterExit") <> None).

Definition no_choice : choices := {| ch_killmode := false; ch_syslog := false; ch_type := false; ch_remain := false |}.

Lemma K_no_choice : K_of no_choice = [s2l "KillMode"; s2l "SyslogIdentifier"; s2l "Type"; s2l "NotifyAccess"; s2l "RemainAfterExit"].
Proof. reflexivity. Qed.

Lemma in_K c key : In key KSET -> (key = s2l "KillMode" -> ch_killmode c = false) -> (key = s2l "SyslogIdentifier" -> ch_syslog c = false) ->
  (key = s2l "Type" \/ key = s2l "NotifyAccess" -> ch_type c = false) -> (key = s2l "RemainAfterExit" -> ch_remain c = false) -> In key (K_of c).
Proof.
  unfold KSET, K_of. cbn [In]. intros [<-|[<-|[<-|[<-|[<-|[]]]]]] H1 H2 H3 H4.
  - rewrite H1 by reflexivity. left. reflexivity.
  - rewrite H3 by (left; reflexivity). apply in_or_app. right. apply in_or_app. right. left. reflexivity.
  - rewrite H3 by (right; reflexivity). apply in_or_app. right. apply in_or_app. right. right. left. reflexivity.
  - rewrite H2 by reflexivity. apply in_or_app. right. left. reflexivity.
  - rewrite H4 by reflexivity. apply in_or_app. right. apply in_or_app. right. apply in_or_app. right. left. reflexivity.
Qed.

Ltac kne := let X := fresh in intros X; try (destruct X as [X|X]); vm_compute in X; discriminate X.

Section AllRuns.
Variables (podman : str) (exists_path : str -> bool) (kill_fixed mount_nl : bool).

Theorem run_ext u path t tbl svc p tbl' c : NoDup (map fst u) -> chosen kill_fixed t u c ->
  convert_one podman exists_path kill_fixed mount_nl u path t tbl = COk (svc, p, tbl') ->
  PassThrough (A_of t) (K_of c) t u svc /\ OwnKept t u svc.
Proof.
  intros Hnd (C1 & C2 & C3 & C4) H.
  assert (HK1 : forall svc0, Shape0 u svc0 ->
            In (s2l "KillMode") (K_of c) \/ (kill_fixed = true /\ lookup_last_value (rename_own svc0 t) SEC_S (s2l "KillMode") <> None)).
  { intros svc0 Hs. destruct (ch_killmode c) eqn:E.
    - right. destruct (C1 eq_refl) as [Hk Hl]. split; [exact Hk|]. rewrite (lookup_svc0 t u svc0 _ Hs). exact Hl.
    - left. apply in_K; [in_kset|intros _; exact E| | |]; kne. }
  assert (HK2 : In (s2l "SyslogIdentifier") (K_of c) \/ lookup_last_value u SEC_S (s2l "SyslogIdentifier") <> None).
  { destruct (ch_syslog c) eqn:E; [right; apply C2; reflexivity|left].
    apply in_K; [in_kset| |intros _; exact E| |]; kne. }
  assert (HK2' : In (s2l "SyslogIdentifier") (K_of c) \/ has_key u SEC_S (s2l "SyslogIdentifier") = true).
  { destruct (ch_syslog c) eqn:E; [right; apply C2; reflexivity|left].
    apply in_K; [in_kset| |intros _; exact E| |]; kne. }
  assert (HK3 : ch_type c = false -> In (s2l "Type") (K_of c) /\ In (s2l "NotifyAccess") (K_of c)).
  { intros E. split; (apply in_K; [in_kset| | |intros _; exact E|]; kne). }
  assert (HK4 : In (s2l "RemainAfterExit") (K_of c) \/ lookup_last_value u SEC_S (s2l "RemainAfterExit") <> None).
  { destruct (ch_remain c) eqn:E; [right; apply C4; reflexivity|left].
    apply in_K; [in_kset| | | |intros _; exact E]; kne. }
  assert (HOne : forall svc0, Shape0 u svc0 -> t = TImage \/ t = TNetwork \/ t = TVolume \/ t = TBuild -> OneShotOk (K_of c) (rename_own svc0 t)).
  { intros svc0 Hs Ht. unfold OneShotOk. rewrite !(lookup_svc0 t u svc0 _ Hs). split; [exact HK2|split; [|exact HK4]].
    destruct (ch_type c) eqn:E; [right|left; apply HK3; reflexivity].
    specialize (C3 eq_refl). destruct Ht as [->|[->|[->| ->]]]; exact C3. }
  assert (Fin : forall svc0, Shape0 u svc0 -> NoDup (map fst svc0) -> Ext (A_of t) (K_of c) (rename_own svc0 t) svc ->
            PassThrough (A_of t) (K_of c) t u svc /\ OwnKept t u svc).
  { intros svc0 Hs Hn0 He. split; [eapply passthrough_of; [apply incl_base_A|exact Hs|exact He]|].
    eapply ownkept_of; [apply onlyus_A|exact Hn0|exact Hs|exact He]. }
  destruct t; cbn [convert_one A_of] in *.
  - (* build *)
    destruct (shape_build u path Hnd) as [Hs Hn0]. apply (Fin _ Hs Hn0).
    destruct (HOne _ Hs ltac:(auto)) as (O1 & O2 & _). eapply build_run_ext; eassumption.
  - (* container *)
    assert (H' := H). unfold from_container in H'. revert H'. cbv zeta. bel. intros [i svc0] Hp _.
    destruct (shape_prologue _ _ _ _ _ _ _ Hnd Hp) as [Hs Hn0]. apply (Fin _ Hs Hn0).
    eapply container_run_ext; [exact Hp|apply HK1; exact Hs|exact HK2| |exact H].
    destruct (ch_type c) eqn:E; [right; apply C3; reflexivity|left; apply HK3; reflexivity].
  - (* image *)
    assert (H' := H). unfold from_image in H'. revert H'. bel. intros [i svc0] Hp _.
    destruct (shape_prologue _ _ _ _ _ _ _ Hnd Hp) as [Hs Hn0]. apply (Fin _ Hs Hn0).
    eapply image_run_ext; [exact Hp|apply HOne; auto|exact H].
  - (* kube *)
    assert (H' := H). unfold from_kube in H'. revert H'. cbv zeta. bel. intros [i svc0] Hp _.
    destruct (shape_prologue _ _ _ _ _ _ _ Hnd Hp) as [Hs Hn0]. apply (Fin _ Hs Hn0).
    eapply kube_run_ext; [exact Hp|apply HK1; exact Hs|exact HK2'|exact H].
  - (* network *)
    assert (H' := H). unfold from_network in H'. revert H'. bel. intros [i svc0] Hp _.
    destruct (shape_prologue _ _ _ _ _ _ _ Hnd Hp) as [Hs Hn0]. apply (Fin _ Hs Hn0).
    eapply network_run_ext; [exact Hp|apply HOne; auto|exact H].
  - (* pod *)
    assert (H' := H). unfold from_pod in H'. revert H'. cbv zeta. bel. intros [i svc0] Hp _.
    destruct (shape_prologue _ _ _ _ _ _ _ Hnd Hp) as [Hs Hn0]. apply (Fin _ Hs Hn0).
    eapply pod_run_ext; [exact Hp|exact HK2|exact H].
  - (* volume *)
    assert (H' := H). unfold from_volume in H'. revert H'. bel. intros [i svc0] Hp _.
    destruct (shape_prologue _ _ _ _ _ _ _ Hnd Hp) as [Hs Hn0]. apply (Fin _ Hs Hn0).
    eapply volume_run_ext; [exact Hp|apply HOne; auto|exact H].
Qed.
End AllRuns.

(* ---- every unit the parser returns has distinct section names ---- *)
Lemma nodup_ensure_section u sec : NoDup (map fst u) -> NoDup (map fst (ensure_section u sec)).
Proof.
  intros H. assert (E : map fst (ensure_section u sec) = if existsb (str_eqb sec) (map fst u) then map fst u else map fst u ++ [sec]).
  { clear H. induction u as [|[n es] r IH]; cbn [ensure_section map fst existsb]; [reflexivity|].
    destruct (str_eqb_spec sec n) as [->|Hne]; cbn [map fst orb]; [reflexivity|]. rewrite IH.
    destruct (existsb (str_eqb sec) (map fst r)); reflexivity. }
  rewrite E. destruct (existsb (str_eqb sec) (map fst u)) eqn:X; [exact H|].
  apply NoDup_app_snoc; [exact H|]. intros Hin. apply existsb_str_in in Hin. congruence.
Qed.

Lemma nodup_finish_entry u sec key acc u' : NoDup (map fst u) -> finish_entry u sec key acc = Some u' -> NoDup (map fst u').
Proof.
  intros H. unfold finish_entry, unit_add_raw. destruct (unquote_value _); [|discriminate]. intros X. injection X as <-.
  apply nodup_add_entry. exact H.
Qed.

Lemma nodup_body_step sec u c st u' : NoDup (map fst u) -> body_step sec u c = Some (st, u') -> NoDup (map fst u').
Proof.
  intros H. unfold body_step.
  repeat match goal with |- (if ?b then _ else _) = _ -> _ => destruct b end; try discriminate; intros X; injection X as _ <-; exact H.
Qed.

Lemma nodup_pstep st u c st' u' : NoDup (map fst u) -> pstep st u c = Some (st', u') -> NoDup (map fst u').
Proof.
  intros H. destruct st; cbn [pstep].
  - repeat match goal with |- (if ?b then _ else _) = _ -> _ => destruct b end; try discriminate; intros X; injection X as _ <-; exact H.
  - destruct (_ =? _); intros X; injection X as _ <-; exact H.
  - destruct (c =? cRB).
    + destruct name; [discriminate|]. intros X. injection X as _ <-. apply nodup_ensure_section. exact H.
    + destruct (c =? cNL); [discriminate|]. intros X. injection X as _ <-. exact H.
  - apply nodup_body_step. exact H.
  - destruct (_ =? _); intros X; injection X as _ <-; exact H.
  - repeat match goal with |- (if ?b then _ else _) = _ -> _ => destruct b end; try discriminate; intros X; injection X as _ <-; exact H.
  - repeat match goal with |- (if ?b then _ else _) = _ -> _ => destruct b end; try discriminate; intros X; injection X as _ <-; exact H.
  - destruct (is_blank c); [intros X; injection X as _ <-; exact H|]. unfold value_start.
    destruct (value_step VNormal 0 [] c) as [[[m ign] acc]|]; [intros X; injection X as _ <-; exact H|].
    destruct (finish_entry u sec key []) eqn:E; [|discriminate]. apply nodup_body_step. eapply nodup_finish_entry; eassumption.
  - destruct (value_step m ign acc c) as [[[m' ign'] acc']|]; [intros X; injection X as _ <-; exact H|].
    destruct (finish_entry u sec key acc) eqn:E; [|discriminate]. apply nodup_body_step. eapply nodup_finish_entry; eassumption.
Qed.

Lemma nodup_prun cs : forall st u u', NoDup (map fst u) -> prun st u cs = Some u' -> NoDup (map fst u').
Proof.
  induction cs as [|c r IH]; intros st u u' H; cbn [prun].
  - destruct st; cbn [pfinish]; try discriminate; try (intros X; injection X as <-; exact H); apply nodup_finish_entry; exact H.
  - destruct (pstep st u c) as [[st' u1]|] eqn:E; [|discriminate]. apply IH. eapply nodup_pstep; eassumption.
Qed.

Theorem parse_nodup cs u : parse_unit cs = Some u -> NoDup (map fst u).
Proof. apply nodup_prun. constructor. Qed.

Lemma has_key_of_lookup u sec k : lookup_last_value u sec k <> None -> has_key u sec k = true.
Proof.
  unfold lookup_last_value, has_key, values_raw. intros H. destruct (filter (key_is k) (section_entries u sec)) as [|e r] eqn:E.
  - exfalso. apply H. reflexivity.
  - apply existsb_exists. exists e. assert (Hin : In e (filter (key_is k) (section_entries u sec))) by (rewrite E; left; reflexivity).
    apply filter_In in Hin. exact Hin.
Qed.

(* ---- the statements pinned in Properties/C07.v ---- *)
Section Final.
Variables (podman : str) (exists_path : str -> bool) (kill_fixed mount_nl : bool).
Notation conv := (convert_one podman exists_path kill_fixed mount_nl).

Lemma chosen_none t u : chosen kill_fixed t u no_choice.
Proof. repeat split; cbn; discriminate. Qed.

Theorem every_run_passes_through u path t tbl svc p tbl' : NoDup (map fst u) ->
  conv u path t tbl = COk (svc, p, tbl') -> PassThrough (A_of t) MANAGED t u svc /\ OwnKept t u svc.
Proof. intros Hnd H. exact (run_ext podman exists_path kill_fixed mount_nl u path t tbl svc p tbl' no_choice Hnd (chosen_none t u) H). Qed.

(* sections that are neither the unit's own, [Quadlet], [Unit] nor [Service] -- [Install] and anything else -- are copied exactly *)
Corollary other_sections_exact u path t tbl svc p tbl' sec k : NoDup (map fst u) ->
  conv u path t tbl = COk (svc, p, tbl') -> ~ In sec (hidden t) -> sec <> SEC_U -> sec <> SEC_S -> vals svc sec k = vals u sec k.
Proof.
  intros Hnd H Hh HU HS. destruct (every_run_passes_through u path t tbl svc p tbl' Hnd H) as [Hp _].
  eapply passthrough_exact; [exact Hp|exact Hh|intros X; contradiction| |left; exact HU].
  intros X. destruct (onlyus_A t _ _ X); contradiction.
Qed.

(* a managed setting the user chose is left exactly as written (repaired KillMode handling) *)
Theorem chosen_settings_kept u path t tbl svc p tbl' c key : kill_fixed = true -> NoDup (map fst u) -> chosen true t u c ->
  conv u path t tbl = COk (svc, p, tbl') -> In key MANAGED -> ~ In key (K_of c) -> ~ In (SEC_S, key) (A_of t) ->
  vals svc SEC_S key = vals u SEC_S key.
Proof.
  intros -> Hnd Hc H Hm Hk Ha. destruct (run_ext podman exists_path true mount_nl u path t tbl svc p tbl' c Hnd Hc H) as [Hp _].
  eapply passthrough_exact; [exact Hp|apply service_not_hidden|intros _; exact Hk|exact Ha|left; discriminate].
Qed.
End Final.

Section Kept.
Variables (podman : str) (exists_path : str -> bool) (mount_nl : bool).
Notation conv := (convert_one podman exists_path true mount_nl).

Ltac chosen_tac := unfold chosen; cbn [ch_killmode ch_syslog ch_type ch_remain].
Ltac notin_K := let X := fresh in cbv [K_of ch_killmode ch_syslog ch_type ch_remain app]; cbn [In]; intros X;
                repeat (destruct X as [X|X]; [vm_compute in X; discriminate X|]); exact X.

Theorem killmode_kept u path t tbl svc p tbl' : NoDup (map fst u) -> lookup_last_value u SEC_S (s2l "KillMode") <> None ->
  conv u path t tbl = COk (svc, p, tbl') -> vals svc SEC_S (s2l "KillMode") = vals u SEC_S (s2l "KillMode").
Proof.
  intros Hnd Hl H.
  apply (chosen_settings_kept podman exists_path true mount_nl u path t tbl svc p tbl'
           {| ch_killmode := true; ch_syslog := false; ch_type := false; ch_remain := false |} _ eq_refl Hnd); [|exact H| | |].
  - chosen_tac. split; [intros _; split; [reflexivity|exact Hl]|split; [discriminate|split; discriminate]].
  - unfold MANAGED; cbn [In]; auto.
  - notin_K.
  - destruct t; cbn [A_of]; notin_list.
Qed.

Theorem syslog_identifier_kept u path t tbl svc p tbl' : NoDup (map fst u) -> lookup_last_value u SEC_S (s2l "SyslogIdentifier") <> None ->
  conv u path t tbl = COk (svc, p, tbl') -> vals svc SEC_S (s2l "SyslogIdentifier") = vals u SEC_S (s2l "SyslogIdentifier").
Proof.
  intros Hnd Hl H.
  apply (chosen_settings_kept podman exists_path true mount_nl u path t tbl svc p tbl'
           {| ch_killmode := false; ch_syslog := true; ch_type := false; ch_remain := false |} _ eq_refl Hnd); [|exact H| | |].
  - chosen_tac. split; [discriminate|split; [intros _; split; [exact Hl|apply has_key_of_lookup; exact Hl]|split; discriminate]].
  - unfold MANAGED; cbn [In]; auto.
  - notin_K.
  - destruct t; cbn [A_of]; notin_list.
Qed.

Theorem remain_after_exit_kept u path t tbl svc p tbl' : NoDup (map fst u) -> lookup_last_value u SEC_S (s2l "RemainAfterExit") <> None ->
  conv u path t tbl = COk (svc, p, tbl') -> vals svc SEC_S (s2l "RemainAfterExit") = vals u SEC_S (s2l "RemainAfterExit").
Proof.
  intros Hnd Hl H.
  apply (chosen_settings_kept podman exists_path true mount_nl u path t tbl svc p tbl'
           {| ch_killmode := false; ch_syslog := false; ch_type := false; ch_remain := true |} _ eq_refl Hnd); [|exact H| | |].
  - chosen_tac. split; [discriminate|split; [discriminate|split; [discriminate|intros _; exact Hl]]].
  - unfold MANAGED; cbn [In]; auto 10.
  - notin_K.
  - destruct t; cbn [A_of]; notin_list.
Qed.

(* Type=oneshot of a container: neither Type nor NotifyAccess is touched *)
Theorem container_oneshot_kept u path tbl svc p tbl' : NoDup (map fst u) -> @lk berr u SEC_S (s2l "Type") = COk (Some (s2l "oneshot")) ->
  conv u path TContainer tbl = COk (svc, p, tbl') ->
  vals svc SEC_S (s2l "Type") = vals u SEC_S (s2l "Type") /\ vals svc SEC_S (s2l "NotifyAccess") = vals u SEC_S (s2l "NotifyAccess").
Proof.
  intros Hnd Hl H.
  split; apply (chosen_settings_kept podman exists_path true mount_nl u path TContainer tbl svc p tbl'
           {| ch_killmode := false; ch_syslog := false; ch_type := true; ch_remain := false |} _ eq_refl Hnd); try exact H;
    try (chosen_tac; split; [discriminate|split; [discriminate|split; [intros _; exact Hl|discriminate]]]); try (unfold MANAGED; cbn [In]; auto 10); try notin_K; cbn [A_of]; notin_list.
Qed.

(* a user's Type= in the one-shot units (image, network, volume, build) *)
Theorem oneshot_type_kept u path t tbl svc p tbl' : t = TImage \/ t = TNetwork \/ t = TVolume \/ t = TBuild ->
  NoDup (map fst u) -> lookup_last_value u SEC_S (s2l "Type") <> None ->
  conv u path t tbl = COk (svc, p, tbl') -> vals svc SEC_S (s2l "Type") = vals u SEC_S (s2l "Type").
Proof.
  intros Ht Hnd Hl H.
  apply (chosen_settings_kept podman exists_path true mount_nl u path t tbl svc p tbl'
           {| ch_killmode := false; ch_syslog := false; ch_type := true; ch_remain := false |} _ eq_refl Hnd); [|exact H| | |].
  - chosen_tac. split; [discriminate|split; [discriminate|split; [intros _; destruct Ht as [->|[->|[->| ->]]]; exact Hl|discriminate]]].
  - unfold MANAGED; cbn [In]; auto 10.
  - notin_K.
  - destruct Ht as [->|[->|[->| ->]]]; cbn [A_of]; notin_list.
Qed.
End Kept.

(* ---- the whole run: every service the generator produces comes from a parsed input file and passes it through ---- *)
Section WholeRun.
Variables (podman : str) (exists_path : str -> bool) (kill_fixed mount_nl : bool).

Lemma convert_all_origin l : forall tbl path svc sp,
  In (path, ROk svc sp) (convert_all podman exists_path kill_fixed mount_nl l tbl) ->
  exists x tbl0 tbl1, In x l /\ l_path x = path /\
    convert_one podman exists_path kill_fixed mount_nl (l_unit x) (l_path x) (i_type (l_info x)) tbl0 = COk (svc, sp, tbl1).
Proof.
  induction l as [|x r IH]; intros tbl path svc sp; cbn [convert_all]; [intros []|].
  destruct (convert_one podman exists_path kill_fixed mount_nl (l_unit x) (l_path x) (i_type (l_info x)) tbl) as [[[s1 p1] t1]|e [t1|]| |] eqn:E;
    cbn [In]; intros [Heq|Hin];
    try (injection Heq as <- <- <-; exists x, tbl, t1; split; [left; reflexivity|split; [reflexivity|exact E]]);
    try discriminate Heq;
    try (destruct (IH _ _ _ _ Hin) as (y & a & b & Hy & Hp & Hc); exists y, a, b; split; [right; exact Hy|split; assumption]).
Qed.

Theorem every_generated_service_passes_through files path svc sp :
  In (path, ROk svc sp) (snd (process_files podman exists_path kill_fixed mount_nl files)) ->
  exists text u t, In (path, text) files /\ parse_unit text = Some u /\
    PassThrough (A_of t) MANAGED t u svc /\ OwnKept t u svc.
Proof.
  unfold process_files. cbv zeta. cbn [snd]. intros H.
  destruct (convert_all_origin _ _ _ _ _ H) as (x & tbl0 & tbl1 & Hx & Hp & Hc).
  apply (Permutation.Permutation_in _ (Permutation.Permutation_sym (sort_units_perm _))) in Hx.
  apply in_flat_map in Hx. destruct Hx as [[pth lr] [Hin Hx]]. cbn [snd fst] in Hx.
  destruct lr as [u i| | |]; try (destruct Hx; fail). destruct Hx as [<-|[]]. cbn [l_path l_unit l_info] in *.
  apply in_map_iff in Hin. destruct Hin as [[pth' text] [Heq Hf]]. cbn [fst snd] in Heq. injection Heq as -> Hl.
  unfold load_one in Hl. destruct (parse_unit text) as [u'|] eqn:Ep; [|discriminate].
  destruct (unit_info u' pth) as [i'| | |]; try discriminate. injection Hl as -> ->.
  exists text, u, (i_type i). subst path. split; [exact Hf|split; [exact Ep|]].
  eapply every_run_passes_through; [eapply parse_nodup; exact Ep|exact Hc].
Qed.
End WholeRun.

(* the premises are satisfiable: a unit with an extra section, a user KillMode, a reset After= list, converted end to end *)
Definition ex_text : str := s2l "[Container]
Image=img
[Unit]
After=
After=foo.service
[Service]
KillMode=control-group
[X-Meta]
Owner=me
".

Example every_generated_service_example :
  match process_files (s2l "/usr/bin/podman") (fun _ => false) true false [(s2l "/d/a.container", ex_text)] with
  | (_, [(_, ROk svc _)]) =>
      vals svc (s2l "X-Meta") (s2l "Owner") = [s2l "me"] /\ vals svc SEC_U (s2l "After") = [NOT; []; s2l "foo.service"] /\
      vals svc SEC_S (s2l "KillMode") = [s2l "control-group"] /\ vals svc (s2l "X-Container") (s2l "Image") = [s2l "img"]
  | _ => False
  end.
Proof. vm_compute. repeat split. Qed.
