(* Drop-ins and names: the run over unit files WITH their drop-ins (Model/ProcessD.v).
   - without drop-ins it is the run of Model/Process.v, so every theorem about process_files applies;
   - the unit that is converted is the main file followed by its drop-ins (entry lists concatenated, C15_dropins), it is validated,
     and -- repaired -- its service name and prefilled object name are those of THAT unit;
   - the pinned order (names from the main file alone) is refuted by a kernel-checked witness: a container whose ContainerName= sits in
     a drop-in is referred to under its old name. *)
From QV Require Import Model.Base Generated.Tables Model.Quote Model.Unquote Model.Split Model.PortRange Model.Unit Model.Lex Model.Parser
  Model.Path Model.Names Model.Convert Model.Process Model.ProcessD Proofs.Util Proofs.C15 Proofs.C07 Proofs.C11.
Open Scope N_scope.
Local Notation L := s2l (only parsing).

Lemma load_tree_no_dropins b path main : load_tree b path main [] = load_one path main.
Proof. unfold load_tree, load_one. destruct (parse_unit main); [|reflexivity]. cbn [merge_dropins fst]. destruct b; reflexivity. Qed.

Theorem process_trees_without_dropins podman ep kf mn b files :
  process_trees podman ep kf mn b (map (fun f => (fst f, snd f, [])) files) = process_files podman ep kf mn files.
Proof.
  unfold process_trees, process_files. rewrite map_map. cbn [fst snd].
  assert (E : map (fun x : str * str => (fst x, load_tree b (fst x) (snd x) [])) files = map (fun f => (fst f, load_one (fst f) (snd f))) files).
  { apply map_ext. intros f. rewrite load_tree_no_dropins. reflexivity. }
  rewrite E. reflexivity.
Qed.

(* what is merged: the parsed main file, then the drop-ins in order, up to the first one that does not parse *)
Lemma merge_dropins_validated ds : forall u, Validated u -> Validated (fst (merge_dropins u ds)).
Proof.
  induction ds as [|d r IH]; intros u Hu; [exact Hu|]. cbn [merge_dropins].
  destruct (parse_unit d) as [du|] eqn:E; [|exact Hu]. apply IH. apply merged_units_validated; [exact Hu|]. eapply parsed_units_validated. exact E.
Qed.

(* repaired: the names in the table are those of the unit that is converted *)
Theorem names_follow_the_merged_unit path main ds m i :
  load_tree true path main ds = LOk m i ->
  exists u, parse_unit main = Some u /\ m = fst (merge_dropins u ds) /\ unit_info m path = COk i /\ Validated m.
Proof.
  unfold load_tree. destruct (parse_unit main) as [u|] eqn:Ep; [|discriminate]. cbv zeta.
  destruct (unit_info (fst (merge_dropins u ds)) path) as [i0| | |] eqn:Ei; try discriminate.
  intros H. injection H as <- <-. exists u. split; [reflexivity|]. split; [reflexivity|]. split; [exact Ei|].
  apply merge_dropins_validated. eapply parsed_units_validated. exact Ep.
Qed.

(* every loaded drop-in contributes its entries after those already there (per section: C15_dropins) *)
Lemma merge_dropins_all_ok u ds : Forall (fun d => parse_unit d <> None) ds -> snd (merge_dropins u ds) = true.
Proof.
  revert u. induction ds as [|d r IH]; intros u H; [reflexivity|]. inversion H as [|? ? H1 H2]; subst. cbn [merge_dropins].
  destruct (parse_unit d); [apply IH; exact H2|congruence].
Qed.

(* ---- the pinned order, refuted: b.container gets ContainerName=foo and ServiceName=bsvc from a drop-in; a.container joins its network ---- *)
Definition ex_files : list (str * str * list str) :=
  [ (L "/d/a.container", L "[Container]
Image=img
Network=b.container
", []);
    (L "/d/b.container", L "[Container]
Image=img
", [L "[Container]
ContainerName=foo
ServiceName=bsvc
"]) ].

Definition exec_start_of (r : option conv_res) : list str :=
  match r with Some (ROk svc _) => vals svc (L "Service") (L "ExecStart") | _ => [] end.
Definition svc_path_of (r : option conv_res) : str := match r with Some (ROk _ sp) => sp | _ => [] end.
Definition requires_of (r : option conv_res) : list str :=
  match r with Some (ROk svc _) => vals svc (L "Unit") (L "Requires") | _ => [] end.

Lemma dropin_names_example :
  let run b := snd (process_trees (L "/usr/bin/podman") (fun _ => false) true false b ex_files) in
  (* repaired *)
  svc_path_of (assoc_str (L "/d/b.container") (run true)) = L "bsvc.service" /\
  requires_of (assoc_str (L "/d/a.container") (run true)) = [L "bsvc.service"] /\
  exec_start_of (assoc_str (L "/d/a.container") (run true)) =
    [L "/usr/bin/podman run --name systemd-%N --cidfile=%t/%N.cid --replace --rm --cgroups split --network container:foo --sdnotify=conmon -d img"] /\
  exec_start_of (assoc_str (L "/d/b.container") (run true)) =
    [L "/usr/bin/podman run --name foo --cidfile=%t/%N.cid --replace --rm --cgroups split --sdnotify=conmon -d img"] /\
  (* pinned: b runs as "foo" but a joins "systemd-b" and requires b.service *)
  svc_path_of (assoc_str (L "/d/b.container") (run false)) = L "b.service" /\
  requires_of (assoc_str (L "/d/a.container") (run false)) = [L "b.service"] /\
  exec_start_of (assoc_str (L "/d/a.container") (run false)) =
    [L "/usr/bin/podman run --name systemd-%N --cidfile=%t/%N.cid --replace --rm --cgroups split --network container:systemd-b --sdnotify=conmon -d img"] /\
  exec_start_of (assoc_str (L "/d/b.container") (run false)) =
    [L "/usr/bin/podman run --name foo --cidfile=%t/%N.cid --replace --rm --cgroups split --sdnotify=conmon -d img"].
Proof. vm_compute. repeat split; reflexivity. Qed.
