(* C06 for the run over unit files WITH their drop-ins (Model/ProcessD.v): the shape, validity and read-back theorems of C06shape.v / C06full.v
   hold for it too -- the merged unit of a file is shaped and validated (merging appends the drop-ins' entries), its names are NUL-free, and
   everything after loading is the same code. *)
From QV Require Import Model.Base Generated.Tables Model.Quote Model.Unquote Model.Split Model.PortRange Model.Unit Model.Lex Model.Parser
  Model.Path Model.Names Model.Convert Model.Process Model.ProcessD Spec.Layout Spec.Passthrough Proofs.Util Proofs.C06 Proofs.C07 Proofs.C07run Proofs.C11 Proofs.C11run
  Proofs.C08 Proofs.C06shape Proofs.C06full Proofs.C13names.
Open Scope N_scope.

Lemma merge_dropins_shaped ds : forall u, NoNL u -> NoNL (fst (merge_dropins u ds)).
Proof.
  induction ds as [|d r IH]; intros u Hu; [exact Hu|]. cbn [merge_dropins].
  destruct (parse_unit d) as [du|] eqn:E; [|exact Hu]. apply IH. apply NoNL_merge_from; [exact Hu|]. exact (proj2 (parsed_units_have_no_newline _ _ E)).
Qed.

Section Trees.
Variables (podman : str) (exists_path : str -> bool) (kill_fixed mount_nl : bool) (names_after : bool).
Variable files : list (str * str * list str).
Hypothesis Hf : forall q t ds, In (q, t, ds) files -> NZ q.

Let units := flat_map (fun p0 : str * load_res => match snd p0 with LOk u0 i0 => [{| l_path := fst p0; l_unit := u0; l_info := i0 |}] | _ => [] end)
                      (map (fun f : str * str * list str => (fst (fst f), load_tree names_after (fst (fst f)) (snd (fst f)) (snd f))) files).

Lemma tree_units_facts x : In x units ->
  NoNL (l_unit x) /\ Validated (l_unit x) /\ NZ (l_path x) /\ NZ (service_file_name (l_info x)) /\ i_containers (l_info x) = [].
Proof.
  intros Hx. unfold units in Hx. apply in_flat_map in Hx. destruct Hx as [[q lr] [Hq Hx]]. apply in_map_iff in Hq. destruct Hq as [[[q' text] ds] [Eq Hin]]. cbn [fst snd] in Eq.
  injection Eq as <- <-. cbn [snd fst] in Hx. destruct (load_tree names_after q' text ds) as [u0 i0| | |] eqn:El; [|destruct Hx|destruct Hx|destruct Hx].
  destruct Hx as [<-|[]]. cbn [l_unit l_path l_info]. unfold load_tree in El. destruct (parse_unit text) as [u1|] eqn:Ep; [|discriminate]. cbv zeta in El.
  destruct (unit_info (if names_after then fst (merge_dropins u1 ds) else u1) q') as [i1| | |] eqn:Ei; try discriminate. injection El as <- <-.
  pose proof (Hf _ _ _ Hin) as Hq. destruct (unit_info_NZ _ _ _ Hq Ei) as [Hs Hc].
  split; [apply merge_dropins_shaped; eapply parsed_units_have_no_newline; exact Ep|].
  split; [apply merge_dropins_validated; eapply parsed_units_validated; exact Ep|]. split; [exact Hq|]. split; assumption.
Qed.

Lemma sorted_units_in x : In x (sort_units units) -> In x units.
Proof. intros Hx. unfold sort_units in Hx. apply in_sort_units in Hx. destruct Hx as [[]|Hx]. exact Hx. Qed.

Theorem trees_services_are_shaped p svc sp :
  In (p, ROk svc sp) (snd (process_trees podman exists_path kill_fixed mount_nl names_after files)) -> NoNL svc.
Proof.
  unfold process_trees. cbv zeta. cbn [snd]. fold units. intros H. eapply convert_all_nn; [|exact H].
  intros x Hx. exact (proj1 (tree_units_facts x (sorted_units_in x Hx))).
Qed.

Theorem trees_services_are_validated p svc sp :
  In (p, ROk svc sp) (snd (process_trees podman exists_path kill_fixed mount_nl names_after files)) -> Validated svc.
Proof.
  unfold process_trees. cbv zeta. cbn [snd]. fold units. intros H. eapply convert_all_V; [| |exact H].
  - apply TNZ_table_of. apply Forall_forall. intros x Hx. destruct (tree_units_facts x (sorted_units_in x Hx)) as (_ & _ & _ & Hs & Hc). split; assumption.
  - intros x Hx. destruct (tree_units_facts x (sorted_units_in x Hx)) as (_ & Hu & Hp & _). split; assumption.
Qed.

Theorem trees_services_read_back_exactly p svc sp :
  In (p, ROk svc sp) (snd (process_trees podman exists_path kill_fixed mount_nl names_after files)) ->
  EdgeFree svc -> parse_unit (to_string svc) = Some svc.
Proof.
  intros H He. apply roundtrip. apply shaped_wf; [exact (trees_services_are_shaped _ _ _ H)|].
  apply entries_ok_of; [exact (trees_services_are_validated _ _ _ H)|exact He].
Qed.
End Trees.

(* ---- C11 for the run with drop-ins: no Panic outcome anywhere ---- *)
Lemma load_tree_no_panic b path main ds : Ordinary path -> load_tree b path main ds <> LPanic.
Proof.
  intros [_ (f & Hf & Hff)]. unfold load_tree. destruct (parse_unit main) as [u|] eqn:Ep; [|discriminate]. cbv zeta.
  assert (Hv : Validated (if b then fst (merge_dropins u ds) else u))
    by (destruct b; [apply merge_dropins_validated|]; eapply parsed_units_validated; exact Ep).
  pose proof (np_unit_info _ Hv path f Hf Hff) as H. unfold np in H.
  pose proof (unit_info_no_skip (if b then fst (merge_dropins u ds) else u) path) as H2.
  destruct (unit_info (if b then fst (merge_dropins u ds) else u) path); try discriminate; congruence.
Qed.

Theorem trees_run_no_panic podman exists_path kill_fixed mount_nl b (files : list (str * str * list str)) :
  (forall p t ds, In (p, t, ds) files -> Ordinary p) ->
  let '(loads, results) := process_trees podman exists_path kill_fixed mount_nl b files in
  (forall p, ~ In (p, LPanic) loads) /\ (forall p, ~ In (p, RPanic) results).
Proof.
  intros Hord. unfold process_trees. cbv zeta. split.
  - intros p Hin. apply in_map_iff in Hin. destruct Hin as [[[p' t] ds] [Heq Hf]]. cbn [fst snd] in Heq. injection Heq as -> Hl.
    exact (load_tree_no_panic b p t ds (Hord _ _ _ Hf) Hl).
  - intros p Hin. destruct (convert_all_panic_origin _ _ _ _ _ _ _ Hin) as (x & tbl0 & Hx & Hc).
    apply (Permutation.Permutation_in _ (Permutation.Permutation_sym (sort_units_perm _))) in Hx.
    apply in_flat_map in Hx. destruct Hx as [[pth lr] [Hin2 Hx]]. cbn [snd fst] in Hx.
    destruct lr as [u i| | |]; try (destruct Hx; fail). destruct Hx as [<-|[]]. cbn [l_path l_unit l_info] in Hc.
    apply in_map_iff in Hin2. destruct Hin2 as [[[pth' text] ds] [Heq Hf]]. cbn [fst snd] in Heq. injection Heq as -> Hl.
    unfold load_tree in Hl. destruct (parse_unit text) as [u'|] eqn:Ep; [|discriminate]. cbv zeta in Hl.
    destruct (unit_info (if b then fst (merge_dropins u' ds) else u') pth) as [i'| | |]; try discriminate. injection Hl as Hm Hi. subst u i.
    destruct (Hord _ _ _ Hf) as [Hnz (f & Hff & _)]. destruct (file_stem_of_name _ _ Hff) as [st Hst].
    assert (Hv : Validated (fst (merge_dropins u' ds))) by (apply merge_dropins_validated; eapply parsed_units_validated; exact Ep).
    exact (convert_no_panic podman exists_path kill_fixed mount_nl _ Hv pth Hnz _ tbl0 f st Hff Hst Hc).
Qed.

(* ---- C07 for the run with drop-ins: every generated service passes the user's sections of the MERGED unit through ---- *)
Lemma merge_dropins_nodup ds : forall u, NoDup (map fst u) -> NoDup (map fst (fst (merge_dropins u ds))).
Proof.
  induction ds as [|d r IH]; intros u Hu; [exact Hu|]. cbn [merge_dropins].
  destruct (parse_unit d) as [du|]; [|exact Hu]. apply IH. apply nodup_merge_from. exact Hu.
Qed.

Theorem trees_every_generated_service_passes_through podman exists_path kill_fixed mount_nl (files : list (str * str * list str)) path svc sp :
  In (path, ROk svc sp) (snd (process_trees podman exists_path kill_fixed mount_nl true files)) ->
  exists main ds u0 t, In (path, main, ds) files /\ parse_unit main = Some u0 /\
    let u := fst (merge_dropins u0 ds) in
    PassThrough (A_of t) MANAGED t u svc /\ OwnKept t u svc.
Proof.
  unfold process_trees. cbv zeta. cbn [snd]. intros H.
  destruct (convert_all_origin _ _ _ _ _ _ _ _ _ H) as (x & tbl0 & tbl1 & Hx & Hp & Hc).
  apply (Permutation.Permutation_in _ (Permutation.Permutation_sym (sort_units_perm _))) in Hx.
  apply in_flat_map in Hx. destruct Hx as [[pth lr] [Hin Hx]]. cbn [snd fst] in Hx.
  destruct lr as [u i| | |]; try (destruct Hx; fail). destruct Hx as [<-|[]]. cbn [l_path l_unit l_info] in *.
  apply in_map_iff in Hin. destruct Hin as [[[pth' text] ds] [Heq Hf]]. cbn [fst snd] in Heq. injection Heq as -> Hl.
  unfold load_tree in Hl. destruct (parse_unit text) as [u'|] eqn:Ep; [|discriminate]. cbv zeta in Hl.
  destruct (unit_info (fst (merge_dropins u' ds)) pth) as [i'| | |]; try discriminate. injection Hl as Hm Hi. subst u i.
  exists text, ds, u', (i_type i'). subst path. split; [exact Hf|split; [exact Ep|]].
  eapply every_run_passes_through; [apply merge_dropins_nodup; eapply parse_nodup; exact Ep|exact Hc].
Qed.

(* ---- C15 / C13 for drop-ins: the history of a key in the merged unit is its history in the main file followed by its histories in the
   drop-ins, in merge order (all drop-ins loadable) ---- *)
Fixpoint dropin_values (ds : list str) (sec key : str) : list str :=
  match ds with
  | [] => []
  | d :: r => (match parse_unit d with Some du => values_raw du sec key | None => [] end) ++ dropin_values r sec key
  end.

Theorem merged_history ds : forall u sec key, Forall (fun d => parse_unit d <> None) ds ->
  values_raw (fst (merge_dropins u ds)) sec key = values_raw u sec key ++ dropin_values ds sec key.
Proof.
  induction ds as [|d r IH]; intros u sec key H; cbn [merge_dropins dropin_values fst]; [rewrite app_nil_r; reflexivity|].
  inversion H as [|? ? H1 H2]; subst. destruct (parse_unit d) as [du|] eqn:E; [|congruence].
  rewrite IH by exact H2. rewrite (Proofs.C15.dropin_history u du sec key (parse_nodup _ _ E)). rewrite <- app_assoc. reflexivity.
Qed.
