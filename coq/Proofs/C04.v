(* C04: every documented spelling of a string reads back as that string; every string has such a spelling. *)
From QV Require Import Model.Base Generated.Tables Model.Unquote Spec.Spelling Proofs.Util.
Open Scope N_scope.

Lemma run_cons g q m res c r : uq_run g q m res (c :: r) =
  match uq_step g q m res c with None => None | Some (q', m', res') => uq_run g q' m' res' r end.
Proof. reflexivity. Qed.

(* ---- the regenerated escape table of unquote_value agrees with the documented table ---- *)
Lemma table_agrees l r : In (l, r) esc_table -> simple_escape l = Some r.
Proof.
  intros H. cbv [esc_table In] in H.
  repeat (destruct H as [H|H]; [injection H as <- <-; vm_compute; reflexivity|]). destruct H.
Qed.

Lemma simple_none_x : simple_escape 120 = None.  Proof. vm_compute. reflexivity. Qed.
Lemma simple_none_u : simple_escape 117 = None.  Proof. vm_compute. reflexivity. Qed.
Lemma simple_none_U : simple_escape 85 = None.   Proof. vm_compute. reflexivity. Qed.

Lemma simple_tbl_keys : forallb (fun kv : N * list N => (57 <? fst kv) || (fst kv <? 48)) cm_quoted_parse_escape_sequence = true.
Proof. vm_compute. reflexivity. Qed.

Lemma simple_none_digit c : is_digit c = true -> simple_escape c = None.
Proof.
  intros H. unfold is_digit in H. apply andb_true_iff in H. destruct H as [A B].
  apply N.leb_le in A, B. unfold simple_escape.
  assert (E : assocN c cm_quoted_parse_escape_sequence = None).
  { pose proof simple_tbl_keys as K. revert K. generalize cm_quoted_parse_escape_sequence.
    induction l as [|[k v] t IH]; intros K; [reflexivity|].
    cbn [forallb fst] in K. apply andb_true_iff in K. destruct K as [K1 K2].
    cbn [assocN]. destruct (N.eqb_spec c k) as [->|Hne]; [|apply IH; exact K2].
    apply orb_true_iff in K1. destruct K1 as [K1|K1]; apply N.ltb_lt in K1; lia. }
  rewrite E. reflexivity.
Qed.

Lemma octdigit_digit c : is_octdigit c = true -> is_digit c = true.
Proof.
  unfold is_octdigit, is_digit. intros H. apply andb_true_iff in H. destruct H as [A B].
  apply N.leb_le in A, B. apply andb_true_iff. split; apply N.leb_le; lia.
Qed.

(* ---- hexadecimal / octal digit runs ---- *)
Lemma hex_run g q res rest : forall hs ds a, hs <> [] -> HexDigits hs ds ->
  uq_run g q (UHex (length hs) a) res (hs ++ rest) =
  match code_to_char (fold_left (fun a d => a * 16 + d) ds a) with
  | Some r => uq_run g q UNorm (res ++ [r]) rest
  | None => None
  end.
Proof.
  induction hs as [|h hs IH]; intros ds a Hne HD; [congruence|].
  inversion HD as [|? d ? ds' Hh HD']; subst. cbn [app length fold_left]. rewrite run_cons. cbn [uq_step]. rewrite Hh.
  destruct hs as [|h' hs'].
  - inversion HD'; subst. cbn [length fold_left app].
    destruct (code_to_char (a * 16 + d)); reflexivity.
  - cbn [length]. change (S (length hs')) with (length (h' :: hs')).
    apply IH; [discriminate|exact HD'].
Qed.

Lemma oct_run g q res rest : forall hs ds a, hs <> [] -> OctDigits hs ds ->
  uq_run g q (UOct (length hs) a) res (hs ++ rest) =
  match code_to_char (fold_left (fun a d => a * 8 + d) ds a) with
  | Some r => uq_run g q UNorm (res ++ [r]) rest
  | None => None
  end.
Proof.
  induction hs as [|h hs IH]; intros ds a Hne HD; [congruence|].
  inversion HD as [|? d ? ds' [Hh Hd] HD']; subst. cbn [app length fold_left]. rewrite run_cons. cbn [uq_step]. rewrite Hh.
  destruct hs as [|h' hs'].
  - inversion HD'; subst. cbn [length fold_left app].
    destruct (code_to_char (a * 8 + (h - 48))); reflexivity.
  - cbn [length]. change (S (length hs')) with (length (h' :: hs')).
    apply IH; [discriminate|exact HD'].
Qed.

Lemma hexfold2_lt hs ds : length hs = 2%nat -> HexDigits hs ds -> hexfold ds < 256.
Proof.
  intros L H. destruct hs as [|h1 [|h2 [|]]]; try discriminate.
  inversion H as [|? d1 ? ? H1 H']; subst. inversion H' as [|? d2 ? ? H2 H'']; subst. inversion H''; subst.
  apply hexval_lt in H1, H2. unfold hexfold. cbn [fold_left]. lia.
Qed.

Lemma octfold3_lt hs ds : length hs = 3%nat -> OctDigits hs ds -> octfold ds < 512.
Proof.
  intros L H. destruct hs as [|h1 [|h2 [|h3 [|]]]]; try discriminate.
  inversion H as [|? d1 ? ? [A1 ->] H']; subst. inversion H' as [|? d2 ? ? [A2 ->] H'']; subst.
  inversion H'' as [|? d3 ? ? [A3 ->] H''']; subst. inversion H'''; subst.
  unfold is_octdigit in *. apply andb_true_iff in A1, A2, A3.
  destruct A1 as [A1 B1], A2 as [A2 B2], A3 as [A3 B3]. apply N.leb_le in A1, A2, A3, B1, B2, B3.
  unfold octfold. cbn [fold_left]. lia.
Qed.

Lemma code_ok v : v <> 0 -> is_scalar v = true -> code_to_char v = Some v.
Proof.
  intros Hz Hs. unfold code_to_char. destruct (N.eqb_spec v 0); [congruence|]. rewrite Hs. reflexivity.
Qed.

Lemma bs_step g q res : uq_step g q UNorm res cBS = Some (q, UEsc, res).
Proof.
  unfold uq_step. assert (E0 : (cBS =? 0) = false) by reflexivity. rewrite E0.
  assert (E : is_quote_char cBS = false) by reflexivity. rewrite E. cbn [andb].
  rewrite N.eqb_refl. reflexivity.
Qed.

(* ---- one escape sequence, in any quoting state ---- *)
Lemma esc_run v sp : Esc v sp -> forall g q res rest,
  uq_run g q UNorm res (sp ++ rest) = uq_run g q UNorm (res ++ [v]) rest.
Proof.
  intros H g q res rest. destruct H as [l r Hin|hs ds L HD Hnz|hs ds L HD Hnz Hsc|hs ds L HD Hnz Hsc|hs ds L HD Hnz].
  - cbn [app]. rewrite run_cons, bs_step, run_cons. cbn [uq_step]. rewrite (table_agrees l r Hin). reflexivity.
  - cbn [app]. rewrite run_cons, bs_step, run_cons. cbn [uq_step]. rewrite simple_none_x.
    change (120 =? 120) with true. cbn iota.
    rewrite <- L. rewrite (hex_run g q res rest hs ds 0) by (try exact HD; destruct hs; discriminate).
    fold (hexfold ds). rewrite code_ok; [reflexivity|exact Hnz|].
    apply is_scalar_small. pose proof (hexfold2_lt hs ds L HD). lia.
  - cbn [app]. rewrite run_cons, bs_step, run_cons. cbn [uq_step]. rewrite simple_none_u.
    change (117 =? 120) with false. change (117 =? 117) with true. cbn iota.
    rewrite <- L. rewrite (hex_run g q res rest hs ds 0) by (try exact HD; destruct hs; discriminate).
    fold (hexfold ds). rewrite code_ok; [reflexivity|exact Hnz|exact Hsc].
  - cbn [app]. rewrite run_cons, bs_step, run_cons. cbn [uq_step]. rewrite simple_none_U.
    change (85 =? 120) with false. change (85 =? 117) with false. change (85 =? 85) with true. cbn iota.
    rewrite <- L. rewrite (hex_run g q res rest hs ds 0) by (try exact HD; destruct hs; discriminate).
    fold (hexfold ds). rewrite code_ok; [reflexivity|exact Hnz|exact Hsc].
  - destruct hs as [|h1 hs']; [discriminate|]. injection L as L.
    inversion HD as [|? d1 ? ds' [Ho ->] HD']; subst.
    cbn [app]. rewrite run_cons, bs_step, run_cons. cbn [uq_step].
    rewrite (simple_none_digit h1 (octdigit_digit h1 Ho)).
    assert (Hx : (h1 =? 120) = false) by (unfold is_octdigit in Ho; apply andb_true_iff in Ho; destruct Ho as [A B]; apply N.leb_le in A, B; apply N.eqb_neq; lia).
    assert (Hu : (h1 =? 117) = false) by (unfold is_octdigit in Ho; apply andb_true_iff in Ho; destruct Ho as [A B]; apply N.leb_le in A, B; apply N.eqb_neq; lia).
    assert (HU : (h1 =? 85) = false) by (unfold is_octdigit in Ho; apply andb_true_iff in Ho; destruct Ho as [A B]; apply N.leb_le in A, B; apply N.eqb_neq; lia).
    rewrite Hx, Hu, HU, Ho. rewrite <- L.
    rewrite (oct_run g q res rest hs' ds' (h1 - 48)) by (try exact HD'; destruct hs'; discriminate).
    assert (E : fold_left (fun a d => a * 8 + d) ds' (h1 - 48) = octfold ((h1 - 48) :: ds')).
    { unfold octfold. cbn [fold_left]. f_equal. }
    rewrite E. rewrite code_ok; [reflexivity|exact Hnz|].
    apply is_scalar_small. pose proof (octfold3_lt (h1 :: hs') ((h1 - 48) :: ds') ltac:(cbn; lia) HD). lia.
Qed.

(* ---- bodies ---- *)
Lemma at_start_snoc res c : at_item_start (res ++ [c]) = is_ws3 c.
Proof.
  unfold at_item_start. destruct (res ++ [c]) eqn:E; [destruct res; discriminate|]. rewrite <- E.
  unfold ends_with_any. rewrite rev_app_distr. cbn [rev app]. unfold memN, is_ws3. cbn [existsb].
  destruct (c =? 32), (c =? 9), (c =? 10); reflexivity.
Qed.

Lemma body_quoted k qc : (k = CDQ /\ qc = cDQ) \/ (k = CSQ /\ qc = cSQ) ->
  forall pw d r, Body k pw d r -> forall res rest,
  uq_run true (Some qc) UNorm res (r ++ rest) = uq_run true (Some qc) UNorm (res ++ d) rest.
Proof.
  intros Hk pw d r HB. induction HB as [pw|pw c d r Hl HB IH|pw c sp d r He HB IH]; intros res rest.
  - rewrite app_nil_r. reflexivity.
  - cbn [app]. rewrite run_cons.
    assert (Hc : (c =? 0) = false /\ (c =? qc) = false /\ (c =? cBS) = false).
    { destruct Hk as [[-> ->]|[-> ->]]; cbn [lit_ok] in Hl; apply andb_true_iff in Hl; destruct Hl as [Hl B];
        apply andb_true_iff in Hl; destruct Hl as [Z A]; apply negb_true_iff in Z, A, B; auto. }
    destruct Hc as (Hz & Hq & Hb). unfold uq_step. rewrite Hz. cbn [negb orb]. rewrite andb_false_r, Hb, Hq.
    rewrite IH. rewrite <- app_assoc. reflexivity.
  - rewrite <- app_assoc. rewrite (esc_run c sp He). rewrite IH. rewrite <- app_assoc. reflexivity.
Qed.

Lemma body_bare : forall pw d r, Body CBare pw d r -> forall res rest,
  (pw = false -> at_item_start res = false) ->
  uq_run true None UNorm res (r ++ rest) = uq_run true None UNorm (res ++ d) rest.
Proof.
  intros pw d r HB. induction HB as [pw|pw c d r Hl HB IH|pw c sp d r He HB IH]; intros res rest Hpw.
  - rewrite app_nil_r. reflexivity.
  - cbn [app]. rewrite run_cons. cbn [lit_ok] in Hl.
    apply andb_true_iff in Hl. destruct Hl as [Hl Hqp]. apply andb_true_iff in Hl. destruct Hl as [Hl Hw].
    apply andb_true_iff in Hl. destruct Hl as [Hz Hb].
    apply negb_true_iff in Hz, Hb, Hw.
    assert (Hopen : is_quote_char c && at_item_start res = false).
    { change (is_quote_char c) with (is_q c). apply orb_true_iff in Hqp. destruct Hqp as [Hq|Hp].
      - apply negb_true_iff in Hq. rewrite Hq. reflexivity.
      - apply negb_true_iff in Hp. rewrite (Hpw Hp). apply andb_false_r. }
    unfold uq_step. rewrite Hz, Hopen. cbn [andb]. rewrite Hb.
    rewrite IH by (intros _; rewrite at_start_snoc; exact Hw). rewrite <- app_assoc. reflexivity.
  - rewrite <- app_assoc. rewrite (esc_run c sp He).
    rewrite IH by (intros E; rewrite at_start_snoc; exact E). rewrite <- app_assoc. reflexivity.
Qed.

Lemma ws_not_quote c : is_ws3 c = true -> is_quote_char c = false /\ (c =? cBS) = false /\ (c =? 0) = false.
Proof.
  unfold is_ws3, is_quote_char, cDQ, cSQ, cBS. intros H.
  repeat (apply orb_true_iff in H; destruct H as [H|H]); apply N.eqb_eq in H; subst; repeat split; reflexivity.
Qed.

Lemma spells_run : forall b d r, Spells_at b d r -> forall res, (b = true -> at_item_start res = true) ->
  uq_run true None UNorm res r = Some (res ++ d).
Proof.
  intros b d r H. induction H as [b|b c d r Hw H IH|body rb d r HB H IH|body rb d r HB H IH|b body rb d r Hne HB H IH];
    intros res Hs.
  - cbn. rewrite app_nil_r. reflexivity.
  - rewrite run_cons. destruct (ws_not_quote c Hw) as (Hq & Hb & Hz). unfold uq_step. rewrite Hz, Hq. cbn [andb]. rewrite Hb.
    rewrite IH by (intros _; rewrite at_start_snoc; exact Hw). rewrite <- app_assoc. reflexivity.
  - rewrite run_cons. unfold uq_step at 1. change (cDQ =? 0) with false. cbn iota. change (is_quote_char cDQ) with true. rewrite (Hs eq_refl). cbn [andb negb orb].
    rewrite (body_quoted CDQ cDQ (or_introl (conj eq_refl eq_refl)) true body rb HB).
    rewrite run_cons. unfold uq_step at 1. change (cDQ =? 0) with false. cbn iota. cbn [negb orb]. rewrite andb_false_r.
    change (cDQ =? cBS) with false. cbn iota. rewrite N.eqb_refl.
    rewrite IH by discriminate. rewrite <- app_assoc. reflexivity.
  - rewrite run_cons. unfold uq_step at 1. change (cSQ =? 0) with false. cbn iota. change (is_quote_char cSQ) with true. rewrite (Hs eq_refl). cbn [andb negb orb].
    rewrite (body_quoted CSQ cSQ (or_intror (conj eq_refl eq_refl)) true body rb HB).
    rewrite run_cons. unfold uq_step at 1. change (cSQ =? 0) with false. cbn iota. cbn [negb orb]. rewrite andb_false_r.
    change (cSQ =? cBS) with false. cbn iota. rewrite N.eqb_refl.
    rewrite IH by discriminate. rewrite <- app_assoc. reflexivity.
  - rewrite (body_bare true body rb HB res r) by discriminate.
    rewrite IH by discriminate. rewrite <- app_assoc. reflexivity.
Qed.

Theorem spellings_read_back s raw : Spells s raw -> unquote_value raw = Some s.
Proof. intros H. unfold unquote_value. rewrite (spells_run true s raw H []); auto. Qed.

(* ---- every string has a spelling ---- *)
Lemma dq_body s : ~ In 0 s -> forall pw, Body CDQ pw s (flat_map dq_char s).
Proof.
  induction s as [|c s IH]; intros Hnz pw; [constructor|].
  assert (Hc0 : (c =? 0) = false) by (apply N.eqb_neq; intros ->; apply Hnz; left; reflexivity).
  specialize (IH (fun X => Hnz (or_intror X))).
  cbn [flat_map]. unfold dq_char at 1.
  destruct (N.eqb_spec c cDQ) as [->|Hq].
  - apply (BEsc CDQ pw cDQ [cBS; cDQ]); [apply (EscSimple 34 34); cbv; tauto|apply IH].
  - destruct (N.eqb_spec c cBS) as [->|Hb].
    + apply (BEsc CDQ pw cBS [cBS; cBS]); [apply (EscSimple 92 92); cbv; tauto|apply IH].
    + destruct (N.eqb_spec c cNL) as [->|Hn].
      * apply (BEsc CDQ pw cNL [cBS; 110]); [apply (EscSimple 110 10); cbv; tauto|apply IH].
      * apply (BLit CDQ pw c s (flat_map dq_char s)); [|apply IH].
        cbn [lit_ok]. apply N.eqb_neq in Hq, Hb. rewrite Hc0, Hq, Hb. reflexivity.
Qed.

Lemma sq_body s : ~ In 0 s -> forall pw, Body CSQ pw s (flat_map sq_char s).
Proof.
  induction s as [|c s IH]; intros Hnz pw; [constructor|].
  assert (Hc0 : (c =? 0) = false) by (apply N.eqb_neq; intros ->; apply Hnz; left; reflexivity).
  specialize (IH (fun X => Hnz (or_intror X))).
  cbn [flat_map]. unfold sq_char at 1.
  destruct (N.eqb_spec c cSQ) as [->|Hq].
  - apply (BEsc CSQ pw cSQ [cBS; cSQ]); [apply (EscSimple 39 39); cbv; tauto|apply IH].
  - destruct (N.eqb_spec c cBS) as [->|Hb].
    + apply (BEsc CSQ pw cBS [cBS; cBS]); [apply (EscSimple 92 92); cbv; tauto|apply IH].
    + destruct (N.eqb_spec c cNL) as [->|Hn].
      * apply (BEsc CSQ pw cNL [cBS; 110]); [apply (EscSimple 110 10); cbv; tauto|apply IH].
      * apply (BLit CSQ pw c s (flat_map sq_char s)); [|apply IH].
        cbn [lit_ok]. apply N.eqb_neq in Hq, Hb. rewrite Hc0, Hq, Hb. reflexivity.
Qed.

Theorem every_string_spellable s : ~ In 0 s -> Spells s (dq s) /\ Spells s (sq s).
Proof.
  intros Hnz. unfold Spells, dq, sq. split.
  - rewrite <- (app_nil_r s) at 1. change (flat_map dq_char s ++ [cDQ]) with (flat_map dq_char s ++ cDQ :: []).
    apply VDQ; [apply dq_body; exact Hnz|constructor].
  - rewrite <- (app_nil_r s) at 1. change (flat_map sq_char s ++ [cSQ]) with (flat_map sq_char s ++ cSQ :: []).
    apply VSQ; [apply sq_body; exact Hnz|constructor].
Qed.

Corollary canonical_read_back s : ~ In 0 s -> unquote_value (dq s) = Some s /\ unquote_value (sq s) = Some s.
Proof. intros Hnz. destruct (every_string_spellable s Hnz). split; apply spellings_read_back; assumption. Qed.

(* the pinned reader mis-reads a documented spelling: the other quote kind inside a quoted run *)
Lemma pinned_refuted :
  Spells (s2l "sh -c 'exit 1'") (dq (s2l "sh -c 'exit 1'")) /\
  dq (s2l "sh -c 'exit 1'") = s2l """sh -c 'exit 1'""" /\
  unquote_value_pinned (s2l """sh -c 'exit 1'""") = Some (s2l "sh -c exit 1""").
Proof. split; [apply every_string_spellable; vm_compute; intuition discriminate|]. split; vm_compute; reflexivity. Qed.

(* non-vacuity: a mixture of quoted and unquoted items with every escape family *)
Example mixture :
  Spells (s2l "a b  'c' d""e A" ++ [233; 128512; 65] ++ s2l " x")
         (s2l """a b""  '\'c\'' d""e \x41\u00e9\U0001F600\101 x").
Proof.
  unfold Spells.
  (* "a b" *)
  change (s2l "a b  'c' d""e A" ++ [233; 128512; 65] ++ s2l " x") with
    (s2l "a b" ++ (32 :: 32 :: (s2l "'c'" ++ (32 :: (s2l "d""e" ++ (32 :: ([65; 233; 128512; 65] ++ (32 :: (s2l "x" ++ []))))))))).
  change (s2l """a b""  '\'c\'' d""e \x41\u00e9\U0001F600\101 x") with
    (cDQ :: s2l "a b" ++ cDQ :: 32 :: 32 :: cSQ :: s2l "\'c\'" ++ cSQ :: 32 :: s2l "d""e" ++ 32 :: s2l "\x41\u00e9\U0001F600\101" ++ 32 :: s2l "x" ++ []).
  apply VDQ.
  { repeat (apply BLit; [reflexivity|]). apply BNil. }
  apply VWs; [reflexivity|]. apply VWs; [reflexivity|].
  apply VSQ.
  { apply (BEsc CSQ true 39 [92; 39]); [apply (EscSimple 39 39); cbv; tauto|].
    apply BLit; [reflexivity|].
    apply (BEsc CSQ _ 39 [92; 39]); [apply (EscSimple 39 39); cbv; tauto|]. apply BNil. }
  apply VWs; [reflexivity|].
  apply VBare; [discriminate| |].
  { repeat (apply BLit; [reflexivity|]). apply BNil. }
  apply VWs; [reflexivity|].
  apply VBare; [discriminate| |].
  { apply (BEsc CBare true 65 (s2l "\x41")).
    { apply (EscX [52; 49] [4; 1]); [reflexivity|repeat constructor|vm_compute; discriminate]. }
    apply (BEsc CBare _ 233 (s2l "\u00e9")).
    { apply (Escu [48; 48; 101; 57] [0; 0; 14; 9]); [reflexivity|repeat constructor|vm_compute; discriminate|reflexivity]. }
    apply (BEsc CBare _ 128512 (s2l "\U0001F600")).
    { apply (EscU [48; 48; 48; 49; 70; 54; 48; 48] [0; 0; 0; 1; 15; 6; 0; 0]); [reflexivity|repeat constructor|vm_compute; discriminate|reflexivity]. }
    apply (BEsc CBare _ 65 (s2l "\101")).
    { apply (EscOct [49; 48; 49] [1; 0; 1]); [reflexivity|repeat constructor|vm_compute; discriminate]. }
    apply BNil. }
  apply VWs; [reflexivity|].
  apply VBare; [discriminate| |apply VNil].
  apply BLit; [reflexivity|]. apply BNil.
Qed.
