(* C06: a well-formed unit written by to_string/write_to reads back as itself. *)
From QV Require Import Model.Base Generated.Tables Model.Quote Model.Unquote Model.PortRange Model.Unit Model.Lex Model.Parser
  Spec.Layout Proofs.Util Proofs.C03.
Open Scope N_scope.

(* ---- a validated value without newline spells itself ---- *)
Definition pending (m : umode) : bool := match m with UEsc => true | _ => false end.

Lemma simple_none_sp : simple_escape cSP = None.  Proof. vm_compute. reflexivity. Qed.
Lemma hexval_bs : hexval cBS = None.  Proof. reflexivity. Qed.

Lemma accepted_literal v : forall g q m res r, uq_run g q m res v = Some r -> ~ In cNL v -> VSpell (pending m) v v.
Proof.
  induction v as [|c v IH]; intros g q m res r H Hn.
  - cbn in H. destruct m; try discriminate. constructor.
  - cbn [uq_run] in H. destruct (uq_step g q m res c) as [[[q' m'] res']|] eqn:E; [|discriminate].
    assert (Hc : c <> cNL) by (intros ->; apply Hn; left; reflexivity).
    assert (Hn' : ~ In cNL v) by (intros X; apply Hn; right; exact X).
    specialize (IH g q' m' res' r H Hn').
    destruct m as [| |n a|n a]; cbn [pending].
    + (* UNorm *)
      unfold uq_step in E. destruct (c =? 0); [discriminate|].
      destruct (is_quote_char c && at_item_start res && (negb g || match q with Some _ => false | None => true end)) eqn:Eq.
      * injection E as <- <- <-. apply VSLit; [|exact Hc|exact IH].
        apply andb_true_iff in Eq. destruct Eq as [Eq _]. apply andb_true_iff in Eq. destruct Eq as [Eq _].
        intros ->. discriminate.
      * destruct (N.eqb_spec c cBS) as [->|Hb].
        -- injection E as <- <- <-. apply VSBs. exact IH.
        -- assert (m' = UNorm) as ->.
           { destruct q as [qc|]; [destruct (c =? qc)|]; injection E as <- <- <-; reflexivity. }
           apply VSLit; assumption.
    + (* UEsc *)
      assert (Hs : c <> cSP).
      { intros ->. cbn [uq_step] in E. rewrite simple_none_sp in E. discriminate. }
      assert (pending m' = false) as Hp.
      { cbn [uq_step] in E. destruct (simple_escape c); [injection E as <- <- <-; reflexivity|].
        destruct (c =? 120); [injection E as <- <- <-; reflexivity|].
        destruct (c =? 117); [injection E as <- <- <-; reflexivity|].
        destruct (c =? 85); [injection E as <- <- <-; reflexivity|].
        destruct (is_octdigit c); [injection E as <- <- <-; reflexivity|discriminate]. }
      rewrite Hp in IH. apply VSEsc; assumption.
    + (* UHex *)
      cbn [uq_step] in E. destruct (hexval c) as [d|] eqn:Hd; [|discriminate].
      assert (Hb : c <> cBS) by (intros ->; rewrite hexval_bs in Hd; discriminate).
      assert (pending m' = false) as Hp.
      { destruct n as [|[|n']]; [discriminate| |injection E as <- <- <-; reflexivity].
        destruct (code_to_char (a * 16 + d)); [injection E as <- <- <-; reflexivity|discriminate]. }
      rewrite Hp in IH. apply VSLit; assumption.
    + (* UOct *)
      cbn [uq_step] in E. destruct (is_octdigit c) eqn:Ho; [|discriminate].
      assert (Hb : c <> cBS) by (intros ->; discriminate).
      assert (pending m' = false) as Hp.
      { destruct n as [|[|n']]; [discriminate| |injection E as <- <- <-; reflexivity].
        destruct (code_to_char (a * 8 + (c - 48))); [injection E as <- <- <-; reflexivity|discriminate]. }
      rewrite Hp in IH. apply VSLit; assumption.
Qed.

Lemma valid_value_spells_itself v : unquote_value v <> None -> ~ In cNL v -> VSpell false v v.
Proof.
  intros H Hn. unfold unquote_value in H. destruct (uq_run true None UNorm [] v) as [r|] eqn:E; [|congruence].
  exact (accepted_literal v true None UNorm [] r E Hn).
Qed.

(* ---- well-formed units ---- *)
Definition model_key_ok (k : str) : Prop := k <> [] /\ Forall (fun c => is_key_char c = true) k.
Definition entry_wf (e : entry) : Prop := model_key_ok (fst e) /\ val_ok (snd e) /\ ~ In cNL (snd e).
Definition section_wf (s : str * entries) : Prop := name_ok (fst s) /\ Forall entry_wf (snd s).
Definition WF_unit (u : unit) : Prop := NoDup (map fst u) /\ Forall section_wf u.

Lemma model_key_good k : model_key_ok k -> good_key k.
Proof. intros [Hne H]. split; [exact Hne|]. revert H. apply Forall_impl. exact model_keychar_facts. Qed.

Lemma entries_render es : Forall entry_wf es -> BodyLines val_ok model_key_ok es (flat_map render_entry es).
Proof.
  induction 1 as [|[k v] es (Hk & Hv & Hn) Hes IH]; [constructor|].
  cbn [flat_map]. unfold render_entry at 1. cbn [fst snd] in *.
  replace ((k ++ [cEQ] ++ v ++ [cNL]) ++ flat_map render_entry es)
    with (([] ++ k ++ [] ++ cEQ :: [] ++ v ++ []) ++ cNL :: flat_map render_entry es)
    by (cbn [app]; repeat (rewrite <- app_assoc || rewrite <- app_comm_cons || rewrite app_nil_r); cbn [app]; reflexivity).
  apply BLEntry; [exact Hk|exact Hv| |exact IH].
  destruct Hv as (Hacc & _). constructor; try constructor.
  apply valid_value_spells_itself; assumption.
Qed.

Lemma sections_render u : Forall section_wf u -> Sections val_ok model_key_ok u (to_string u).
Proof.
  induction 1 as [|[n es] u (Hn & Hes) Hu IH]; [constructor|].
  unfold to_string. cbn [flat_map]. fold (to_string u). unfold render_section at 1. cbn [fst snd] in *.
  replace (([cLB] ++ n ++ [cRB; cNL] ++ flat_map render_entry es ++ [cNL]) ++ to_string u)
    with ([] ++ cLB :: n ++ cRB :: [] ++ cNL :: (flat_map render_entry es ++ [cNL]) ++ to_string u)
    by (cbn [app]; repeat (rewrite <- app_assoc || rewrite <- app_comm_cons || rewrite app_nil_r); cbn [app]; reflexivity).
  apply SCons; [constructor|exact Hn|constructor| |exact IH].
  (* body: the entries, then the blank line *)
  clear IH. pose proof (entries_render es Hes) as Hb.
  assert (G : forall es t, BodyLines val_ok model_key_ok es t -> BodyLines val_ok model_key_ok es (t ++ [cNL])).
  { clear. induction 1 as [|es j t Hj Hb IH|k v es line t Hk Hv HL Hb IH].
    - change ([] ++ [cNL]) with (([] ++ [cNL]) ++ @nil N). apply BLJunk; [apply JBlank; constructor|constructor].
    - rewrite <- app_assoc. apply BLJunk; assumption.
    - rewrite <- app_assoc. cbn [app]. apply BLEntry; assumption. }
  apply G. exact Hb.
Qed.

(* ---- merging sections with distinct names changes nothing ---- *)
Lemma ms_insert_fresh acc n es : ~ In n (map fst acc) -> ms_insert acc n es = acc ++ [(n, es)].
Proof.
  induction acc as [|[n' es'] acc IH]; intros H; [reflexivity|].
  cbn [ms_insert]. destruct (str_eqb_spec n n') as [->|Hne].
  - exfalso. apply H. left. reflexivity.
  - cbn [app]. f_equal. apply IH. intros X. apply H. right. exact X.
Qed.

Lemma merge_nodup u : forall acc, NoDup (map fst (acc ++ u)) ->
  fold_left (fun a s => ms_insert a (fst s) (snd s)) u acc = acc ++ u.
Proof.
  induction u as [|[n es] u IH]; intros acc H; [rewrite app_nil_r; reflexivity|].
  cbn [fold_left fst snd]. rewrite ms_insert_fresh.
  - rewrite IH; rewrite <- app_assoc; [reflexivity|exact H].
  - rewrite map_app in H. apply NoDup_remove_2 in H. intros X. apply H. apply in_or_app. left. exact X.
Qed.

Theorem roundtrip u : WF_unit u -> parse_unit (to_string u) = Some u.
Proof.
  intros [Hnd Hwf].
  rewrite (parse_render_gen model_key_ok model_key_good u (to_string u)).
  - unfold merge_sections. rewrite merge_nodup; [reflexivity|exact Hnd].
  - apply RSections. apply sections_render. exact Hwf.
Qed.

(* write_to emits exactly the text of to_string (C19's serialiser clause) *)
Lemma write_calls_concat u : concat (write_calls u) = to_string u.
Proof.
  unfold write_calls, to_string. induction u as [|[n es] u IH]; [reflexivity|].
  cbn [flat_map]. rewrite concat_app, IH. f_equal.
  cbn [fst snd concat]. rewrite concat_app. cbn [concat]. rewrite app_nil_r.
  rewrite <- flat_map_concat_map. unfold render_section. cbn [fst snd].
  repeat (rewrite <- app_assoc || rewrite <- app_comm_cons). reflexivity.
Qed.

(* one physical line per entry, two per section *)
Fixpoint count_nl (s : str) : nat := match s with [] => O | c :: r => (if c =? cNL then 1 else 0) + count_nl r end.
Lemma count_nl_app a b : count_nl (a ++ b) = (count_nl a + count_nl b)%nat.
Proof. induction a as [|c a IH]; [reflexivity|]. cbn [app count_nl]. rewrite IH. lia. Qed.
Lemma count_nl_none s : ~ In cNL s -> count_nl s = O.
Proof.
  induction s as [|c s IH]; intros H; [reflexivity|]. cbn [count_nl].
  destruct (N.eqb_spec c cNL) as [->|]; [exfalso; apply H; left; reflexivity|].
  rewrite IH; [reflexivity|]. intros X; apply H; right; exact X.
Qed.

Definition no_nl_unit (u : unit) : Prop :=
  Forall (fun s : str * entries => ~ In cNL (fst s) /\ Forall (fun e : entry => ~ In cNL (fst e) /\ ~ In cNL (snd e)) (snd s)) u.

Theorem line_count u : no_nl_unit u ->
  count_nl (to_string u) = (fold_right (fun s n => 2 + length (snd s) + n) 0 u)%nat.
Proof.
  induction 1 as [|[n es] u [Hn Hes] Hu IH]; [reflexivity|].
  unfold to_string. cbn [flat_map fold_right]. fold (to_string u). rewrite count_nl_app, IH.
  unfold render_section. cbn [fst snd] in *. rewrite !count_nl_app. rewrite (count_nl_none n Hn).
  assert (E : count_nl (flat_map render_entry es) = length es).
  { clear -Hes. induction Hes as [|[k v] es [Hk Hv] Hes IH]; [reflexivity|].
    cbn [flat_map length]. rewrite count_nl_app, IH. unfold render_entry. cbn [fst snd] in *.
    rewrite !count_nl_app, (count_nl_none k Hk), (count_nl_none v Hv). reflexivity. }
  rewrite E. change (count_nl [cLB]) with 0%nat. change (count_nl [cRB; cNL]) with 1%nat. change (count_nl [cNL]) with 1%nat. lia.
Qed.

Example roundtrip_example :
  parse_unit (to_string [(s2l "Unit", [(s2l "Description", s2l "a b"); (s2l "After", s2l "x.service")]);
                         (s2l "Service", [(s2l "ExecStart", s2l "/usr/bin/podman run --name ""a b"" \\x5b img")])])
  = Some [(s2l "Unit", [(s2l "Description", s2l "a b"); (s2l "After", s2l "x.service")]);
          (s2l "Service", [(s2l "ExecStart", s2l "/usr/bin/podman run --name ""a b"" \\x5b img")])].
Proof. vm_compute. reflexivity. Qed.
