From QV Require Import Model.Base Model.Path Model.Unit Model.Dropins Proofs.Util.
Open Scope N_scope.

(* ---- unit files: exactly the first loadable file of each name ---- *)
Definition first_loadable (seen : list str) (files : list found) (f : found) : Prop :=
  exists pre post, files = pre ++ f :: post /\ f_loads f = true /\ ~ In (f_name f) seen /\
                   (forall g, In g pre -> f_name g = f_name f -> f_loads g = false).

Lemma pick_units_spec files : forall seen f, In f (pick_units seen files) <-> first_loadable seen files f.
Proof.
  induction files as [|x r IH]; intros seen f; cbn [pick_units].
  - split; [intros []|]. intros (pre & post & E & _). destruct pre; discriminate.
  - destruct (mem_str (f_name x) seen) eqn:Es.
    + (* x's name already taken *)
      rewrite IH. apply mem_str_In in Es. split.
      * intros (pre & post & -> & Hl & Hs & Hp). exists (x :: pre), post. repeat split; auto.
        intros g [<-|Hg] Hn; [|apply Hp; assumption]. exfalso. apply Hs. rewrite <- Hn. exact Es.
      * intros (pre & post & E & Hl & Hs & Hp). destruct pre as [|y pre].
        -- injection E as <- <-. contradiction.
        -- injection E as <- ->. exists pre, post. repeat split; auto. intros g Hg. apply Hp. right. exact Hg.
    + assert (Hns : ~ In (f_name x) seen) by (intros X; apply mem_str_In in X; congruence).
      destruct (f_loads x) eqn:El.
      * cbn [In]. rewrite IH. split.
        -- intros [<-|(pre & post & -> & Hl & Hs & Hp)].
           ++ exists [], r. repeat split; auto. intros g [].
           ++ exists (x :: pre), post. repeat split; auto.
              ** intros X. apply Hs. right. exact X.
              ** intros g [<-|Hg] Hn; [|apply Hp; assumption]. exfalso. apply Hs. left. exact Hn.
        -- intros (pre & post & E & Hl & Hs & Hp). destruct pre as [|y pre].
           ++ injection E as <- <-. left. reflexivity.
           ++ injection E as <- ->. right. exists pre, post. repeat split; auto.
              ** intros [X|X]; [|contradiction].
                 assert (f_loads x = false) by (apply Hp; [left; reflexivity|exact X]). congruence.
              ** intros g Hg. apply Hp. right. exact Hg.
      * rewrite IH. split.
        -- intros (pre & post & -> & Hl & Hs & Hp). exists (x :: pre), post. repeat split; auto.
           intros g [<-|Hg] Hn; [exact El|apply Hp; assumption].
        -- intros (pre & post & E & Hl & Hs & Hp). destruct pre as [|y pre].
           ++ injection E as <- <-. congruence.
           ++ injection E as <- ->. exists pre, post. repeat split; auto. intros g Hg. apply Hp. right. exact Hg.
Qed.

Lemma pick_units_nodup files : forall seen, NoDup (map f_name (pick_units seen files)) /\
  (forall f, In f (pick_units seen files) -> ~ In (f_name f) seen).
Proof.
  induction files as [|x r IH]; intros seen; cbn [pick_units]; [split; [constructor|intros f []]|].
  destruct (mem_str (f_name x) seen) eqn:Es; [apply IH|].
  destruct (f_loads x); [|apply IH].
  destruct (IH (f_name x :: seen)) as [Hnd Hns]. split.
  - cbn [map]. constructor; [|exact Hnd]. intros X. apply in_map_iff in X. destruct X as [g [Hg Hin]].
    apply (Hns g Hin). left. symmetry. exact Hg.
  - intros f [<-|Hf].
    + intros X. apply mem_str_In in X. congruence.
    + intros X. apply (Hns f Hf). right. exact X.
Qed.

Theorem units_first_wins files :
  NoDup (map f_name (pick_units [] files)) /\
  (forall f, In f (pick_units [] files) <->
     exists pre post, files = pre ++ f :: post /\ f_loads f = true /\ (forall g, In g pre -> f_name g = f_name f -> f_loads g = false)).
Proof.
  split.
  - apply (proj1 (pick_units_nodup files [])).
  - intros f. rewrite pick_units_spec. unfold first_loadable. split.
    + intros (pre & post & E & Hl & _ & Hp). exists pre, post. auto.
    + intros (pre & post & E & Hl & Hp). exists pre, post. repeat split; auto.
Qed.

(* ---- drop-ins: the first directory that has a name provides it ---- *)
Lemma nodup_str_in x l : In x (nodup_str l) <-> In x l.
Proof.
  induction l as [|y r IH]; [reflexivity|]. cbn [nodup_str]. destruct (mem_str y r) eqn:E.
  - rewrite IH. apply mem_str_In in E. split; [right; assumption|]. intros [<-|H]; assumption.
  - cbn [In]. rewrite IH. reflexivity.
Qed.

Lemma pick_dropins_spec dirs : forall seen n d,
  In (n, d) (pick_dropins seen dirs) ->
  exists pre names post, dirs = pre ++ (d, names) :: post /\ In n names /\ ~ In n seen /\
                         (forall d' ns', In (d', ns') pre -> ~ In n ns').
Proof.
  induction dirs as [|[d0 names0] r IH]; intros seen n d H; cbn [pick_dropins] in H; [destruct H|].
  apply in_app_or in H. destruct H as [H|H].
  - apply in_map_iff in H. destruct H as [n' [E Hin]]. injection E as -> ->.
    apply filter_In in Hin. destruct Hin as [Hin Hs]. apply (proj1 (nodup_str_in _ _)) in Hin. apply negb_true_iff in Hs.
    exists [], names0, r. split; [reflexivity|]. split; [exact Hin|]. split.
    + intros X. apply mem_str_In in X. congruence.
    + intros d' ns' [].
  - destruct (IH _ _ _ H) as (pre & names & post & -> & Hin & Hs & Hp).
    exists ((d0, names0) :: pre), names, post. split; [reflexivity|]. split; [exact Hin|]. split.
    + intros X. apply Hs. apply in_or_app. right. exact X.
    + intros d' ns' [E|Hi]; [|apply (Hp d' ns' Hi)]. injection E as <- <-. intros X. apply Hs. apply in_or_app.
      destruct (mem_str n seen) eqn:Em; [right; apply mem_str_In; exact Em|].
      left. apply filter_In. split; [apply (proj2 (nodup_str_in _ _)); exact X|]. rewrite Em. reflexivity.
Qed.

(* ---- where drop-in directories are looked for ---- *)
Theorem dropin_dirs_by_name sps unit_path fname : file_name unit_path = Some fname ->
  exists tmpl, dropin_dirs true sps unit_path = map (fun sp => path_join sp (fname ++ s2l ".d")) sps ++ tmpl.
Proof. intros H. unfold dropin_dirs. rewrite H. eexists. reflexivity. Qed.

Lemma pinned_refuted :
  dropin_dirs false [s2l "/first"; s2l "/second"] (s2l "/first/x.container") = [s2l "/first/x.container.d"; s2l "/first/x.container.d"] /\
  dropin_dirs true [s2l "/first"; s2l "/second"] (s2l "/first/x.container") = [s2l "/first/x.container.d"; s2l "/second/x.container.d"] /\
  dropin_dirs true [s2l "/a"; s2l "/b"] (s2l "/a/t@i.container") =
    [s2l "/a/t@i.container.d"; s2l "/b/t@i.container.d"; s2l "/a/t@.container.d"; s2l "/b/t@.container.d"].
Proof. vm_compute. repeat split; reflexivity. Qed.
