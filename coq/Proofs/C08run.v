(* C08 over whole runs: the object name the table holds for a unit is the one that unit's own service creates. *)
From QV Require Import Model.Base Generated.Tables Model.Quote Model.Unquote Model.Split Model.PortRange Model.Unit Model.Lex Model.Parser
  Model.Path Model.Names Model.Convert Model.Process Spec.Passthrough Proofs.Util Proofs.C15 Proofs.C07 Proofs.C08 Proofs.C07run Proofs.C09 Proofs.C09run.
Open Scope N_scope.

Definition rname (t : table) (K : str) : option str := option_map i_resource_name (tbl_get t K).

Lemma rname_with_container tbl P i sp K : tbl_get tbl P = Some i -> rname (tbl_set tbl P (with_container i sp)) K = rname tbl K.
Proof.
  intros Hg. unfold rname. destruct (str_eqb_spec K P) as [->|Hne].
  - rewrite tbl_get_set_same, Hg. reflexivity.
  - rewrite tbl_get_set_other by exact Hne. reflexivity.
Qed.

Lemma rname_with_resource tbl F inf name K : 
  rname (tbl_set tbl F (with_resource inf name)) K = if str_eqb K F then Some name else rname tbl K.
Proof.
  unfold rname. destruct (str_eqb_spec K F) as [->|Hne].
  - rewrite tbl_get_set_same. reflexivity.
  - rewrite tbl_get_set_other by exact Hne. reflexivity.
Qed.

(* the object name a unit's own service creates (volume create / network create / image pull) *)
Definition created_name (x : loaded) : bres str :=
  match i_type (l_info x) with
  | TVolume => volume_name (l_unit x) (l_path x)
  | TNetwork => network_name (l_unit x) (l_path x)
  | TImage => image_resource (l_unit x)
  | _ => CSkip
  end.

Section Effects.
Variables (podman : str) (exists_path : str -> bool) (kill_fixed mount_nl : bool).
Notation conv x tbl := (convert_one podman exists_path kill_fixed mount_nl (l_unit x) (l_path x) (i_type (l_info x)) tbl).
Notation step := (step_tbl podman exists_path kill_fixed mount_nl).
Notation fin := (final_tbl podman exists_path kill_fixed mount_nl).

(* a conversion either leaves every object name alone or stores the unit's own created name under its own file name *)
Definition StoresName (x : loaded) (tbl : table) (K name : str) : Prop :=
  file_name (l_path x) = Some K /\ created_name x = COk name /\
  exists inf, tbl_get tbl K = Some inf /\ step x tbl = tbl_set tbl K (with_resource inf name).

Lemma step_names x tbl :
  (forall K, rname (step x tbl) K = rname tbl K) \/ (exists K name, StoresName x tbl K name).
Proof.
  unfold StoresName, created_name, step_tbl. destruct (i_type (l_info x)) eqn:Et; cbn [convert_one].
  - left. intros K. rewrite build_keeps. reflexivity.
  - left. intros K. destruct (container_out podman exists_path kill_fixed mount_nl (l_unit x) (l_path x) tbl) as [->|(inf & svc0 & Hp & ->)]; [reflexivity|].
    unfold reg_tbl. destruct (pod_reg (l_unit x) tbl) as [[P' i]|] eqn:Er; [|reflexivity].
    apply rname_with_container. eapply pod_reg_in_table. exact Er.
  - destruct (from_image podman (l_unit x) (l_path x) tbl) as [[[s p] t]|e [t|]| |] eqn:E; cbn [tbl_out]; try (left; reflexivity).
    + right. destruct (image_sets_table _ _ _ _ _ _ _ E) as (fname & inf & name & Hf & Ht & Hn & ->). exists fname, name. split; [exact Hf|split; [exact Hn|exists inf; split; [exact Ht|reflexivity]]].
    + exfalso. assert (P : plain (from_image podman (l_unit x) (l_path x) tbl)) by (unfold from_image; pl). exact (P e t E).
  - left. intros K. rewrite kube_keeps. reflexivity.
  - destruct (from_network podman (l_unit x) (l_path x) tbl) as [[[s p] t]|e [t|]| |] eqn:E; cbn [tbl_out]; try (left; reflexivity).
    + right. destruct (network_sets_table _ _ _ _ _ _ _ E) as (fname & inf & name & Hf & Ht & Hn & ->). exists fname, name. split; [exact Hf|split; [exact Hn|exists inf; split; [exact Ht|reflexivity]]].
    + exfalso. assert (P : plain (from_network podman (l_unit x) (l_path x) tbl)) by (unfold from_network; pl). exact (P e t E).
  - left. intros K. rewrite pod_keeps. reflexivity.
  - destruct (from_volume podman (l_unit x) (l_path x) tbl) as [[[s p] t]|e [t|]| |] eqn:E; cbn [tbl_out]; try (left; reflexivity).
    + right. destruct (volume_sets_table _ _ _ _ _ _ _ E) as (fname & inf & name & Hf & Ht & Hn & ->). exists fname, name. split; [exact Hf|split; [exact Hn|exists inf; split; [exact Ht|reflexivity]]].
    + revert E. unfold from_volume.
      destruct (prologue (l_unit x) (l_path x) tbl TVolume a_SUPPORTED_VOLUME_KEYS) as [[inf svc0]|e0 [t0|]| |] eqn:Ep; cbn [bind]; try discriminate.
      * destruct (prologue_ok _ _ _ _ _ _ _ Ep) as (fname & Ef & Eg). cbv zeta.
        destruct (volume_name (l_unit x) (l_path x)) as [name|e1 [t1|]| |] eqn:En; cbn [bind lift]; try discriminate.
        -- rewrite Ef. intros H. right. exists fname, name. split; [reflexivity|split; [reflexivity|]]. exists inf. split; [exact Eg|].
           destruct (volume_body podman (l_unit x) name (rename_own svc0 TVolume) (tbl_set tbl fname (with_resource inf name))) as [sv|e2 [t2|]| |] eqn:Eb;
             cbn [bind with_tbl lift] in H; try discriminate.
           ++ exfalso. exact (plain_volume_body podman (l_unit x) name _ _ e2 t2 Eb).
           ++ injection H as _ <-. reflexivity.
        -- exfalso. exact (plain_volume_name (l_unit x) (l_path x) e1 t1 En).
      * exfalso. exact (plain_prologue (l_unit x) (l_path x) tbl TVolume _ e0 t0 Ep).
Qed.
End Effects.

Section RunNames.
Variables (podman : str) (exists_path : str -> bool) (kill_fixed mount_nl : bool).
Notation conv x tbl := (convert_one podman exists_path kill_fixed mount_nl (l_unit x) (l_path x) (i_type (l_info x)) tbl).
Notation step := (step_tbl podman exists_path kill_fixed mount_nl).
Notation fin := (final_tbl podman exists_path kill_fixed mount_nl).
Notation Stores := (StoresName podman exists_path kill_fixed mount_nl).

Lemma keep_rname l : forall tbl K, (forall z, In z l -> file_name (l_path z) <> Some K) -> rname (fin l tbl) K = rname tbl K.
Proof.
  induction l as [|z r IH]; intros tbl K H; cbn [final_tbl]; [reflexivity|].
  rewrite IH by (intros w Hw; apply H; right; exact Hw).
  destruct (step_names podman exists_path kill_fixed mount_nl z tbl) as [E|(K' & name & Hf & _ & inf & _ & ->)]; [apply E|].
  rewrite rname_with_resource. destruct (str_eqb_spec K K') as [->|]; [|reflexivity]. exfalso. apply (H z); [left; reflexivity|exact Hf].
Qed.

Lemma fin_app l1 : forall l2 tbl, fin (l1 ++ l2) tbl = fin l2 (fin l1 tbl).
Proof. induction l1 as [|x r IH]; intros l2 tbl; cbn [app final_tbl]; [reflexivity|apply IH]. Qed.

Lemma stored_survives l1a x l1b tbl0 K name :
  Stores x (fin l1a tbl0) K name -> (forall z, In z l1b -> file_name (l_path z) <> Some K) ->
  rname (fin (l1a ++ x :: l1b) tbl0) K = Some name.
Proof.
  intros (Hf & _ & inf & _ & Hs) Hl. rewrite fin_app. cbn [final_tbl]. rewrite keep_rname by exact Hl.
  rewrite Hs, rname_with_resource, str_eqb_refl. reflexivity.
Qed.

(* a successful conversion of a volume, network or image stores its created name and returns the table's service file name *)
Lemma ok_stores x tbl svc sp t' :
  i_type (l_info x) = TVolume \/ i_type (l_info x) = TNetwork \/ i_type (l_info x) = TImage ->
  conv x tbl = COk (svc, sp, t') ->
  exists K name, Stores x tbl K name /\ sfile tbl K = Some sp.
Proof.
  intros Ht H. unfold StoresName, created_name, step_tbl. destruct Ht as [Ht|[Ht|Ht]]; rewrite Ht in *; cbn [convert_one] in *; rewrite H; cbn [tbl_out].
  - destruct (volume_sets_table _ _ _ _ _ _ _ H) as (fname & inf & name & Hf & Hg & Hn & ->). exists fname, name.
    split; [split; [exact Hf|split; [exact Hn|exists inf; split; [exact Hg|reflexivity]]]|].
    revert H. unfold from_volume. bel. intros [inf' svc0] Hp. destruct (prologue_ok _ _ _ _ _ _ _ Hp) as (f' & Ef & Eg).
    rewrite Hf in Ef. injection Ef as <-. rewrite Hg in Eg. injection Eg as <-.
    intros H. apply lift_ok in H. revert H. cbv zeta. bel. intros nm _. rewrite Hf. intros H. apply with_tbl_ok in H. revert H.
    bel. intros sv _ H. injection H as _ <- _. unfold sfile. rewrite Hg. reflexivity.
  - destruct (network_sets_table _ _ _ _ _ _ _ H) as (fname & inf & name & Hf & Hg & Hn & ->). exists fname, name.
    split; [split; [exact Hf|split; [exact Hn|exists inf; split; [exact Hg|reflexivity]]]|].
    revert H. unfold from_network. bel. intros [inf' svc0] Hp. destruct (prologue_ok _ _ _ _ _ _ _ Hp) as (f' & Ef & Eg).
    rewrite Hf in Ef. injection Ef as <-. rewrite Hg in Eg. injection Eg as <-.
    intros H. apply lift_ok in H. revert H. bel. intros nm _. bel. intros sv _. rewrite Hf. intros H. injection H as _ <- _.
    unfold sfile. rewrite Hg. reflexivity.
  - destruct (image_sets_table _ _ _ _ _ _ _ H) as (fname & inf & name & Hf & Hg & Hn & ->). exists fname, name.
    split; [split; [exact Hf|split; [exact Hn|exists inf; split; [exact Hg|reflexivity]]]|].
    revert H. unfold from_image. bel. intros [inf' svc0] Hp. destruct (prologue_ok _ _ _ _ _ _ _ Hp) as (f' & Ef & Eg).
    rewrite Hf in Ef. injection Ef as <-. rewrite Hg in Eg. injection Eg as <-.
    intros H. apply lift_ok in H. revert H. bel. intros sv _. bel. intros nm _. rewrite Hf. intros H. injection H as _ <- _.
    unfold sfile. rewrite Hg. reflexivity.
Qed.

(* the whole run: when a later unit is converted, the table holds, for an earlier volume / network / image that converted,
   exactly the object name its own conversion computed and the service file name its own conversion returned *)
Theorem names_along_the_run l1a x l1b tbl0 svc sp t' :
  NoDup (map (fun z => file_name (l_path z)) (l1a ++ x :: l1b)) ->
  i_type (l_info x) = TVolume \/ i_type (l_info x) = TNetwork \/ i_type (l_info x) = TImage ->
  conv x (fin l1a tbl0) = COk (svc, sp, t') ->
  exists K name, file_name (l_path x) = Some K /\ created_name x = COk name /\
    rname (fin (l1a ++ x :: l1b) tbl0) K = Some name /\ sfile (fin (l1a ++ x :: l1b) tbl0) K = Some sp.
Proof.
  intros Hnd Ht H. destruct (ok_stores x _ _ _ _ Ht H) as (K & name & Hs & Hsf). exists K, name.
  destruct Hs as (Hf & Hn & Hrest). split; [exact Hf|split; [exact Hn|split]].
  - apply stored_survives; [exact (conj Hf (conj Hn Hrest))|]. intros z Hz Hfz.
    rewrite map_app in Hnd. cbn [map] in Hnd. apply NoDup_remove_2 in Hnd. apply Hnd. apply in_or_app. right.
    rewrite Hf, <- Hfz. apply (in_map (fun z => file_name (l_path z))). exact Hz.
  - rewrite final_sfile. rewrite final_sfile in Hsf. exact Hsf.
Qed.
End RunNames.

Lemma Ext_exact_K A K a b sec k : Ext A K a b -> (sec = SEC_S -> ~ In k K) -> ~ In (sec, k) A -> vals b sec k = vals a sec k.
Proof. intros He Hk Hn. destruct (He sec k Hk) as [post [E P]]. rewrite E, (P Hn), app_nil_r. reflexivity. Qed.

Lemma one_shot_keeps_execstart svc remain svc' : one_shot_section svc remain = COk svc' ->
  vals svc' SEC_S (s2l "ExecStart") = vals svc SEC_S (s2l "ExecStart").
Proof.
  intros H. apply (Ext_exact_K [] KSET svc svc' SEC_S (s2l "ExecStart")).
  - eapply Ext_one_shot; [left; in_kset|left; in_kset|left; in_kset|exact H].
  - intros _. unfold KSET. cbn [In]. intros X. repeat (destruct X as [X|X]; [vm_compute in X; discriminate X|]). exact X.
  - intros [].
Qed.

Lemma add_raw_exec_execstart svc args svc' : add_raw_exec svc (s2l "ExecStart") args = COk svc' ->
  vals svc' SEC_S (s2l "ExecStart") = vals svc SEC_S (s2l "ExecStart") ++ [quote_words args].
Proof.
  unfold add_raw_exec, unit_add_raw. destruct (unquote_value _); [|discriminate]. intros H. injection H as <-.
  rewrite vals_add_entry, !str_eqb_refl. reflexivity.
Qed.

(* the object a .volume / .network unit's own service creates is the name stored in the table *)
Theorem volume_creates podman u path tbl svc sp t' : from_volume podman u path tbl = COk (svc, sp, t') ->
  exists name before pre, volume_name u path = COk name /\ vals svc SEC_S (s2l "ExecStart") = before ++ [quote_words (pre ++ [name])].
Proof.
  unfold from_volume. bel. intros [inf svc0] _ H. apply lift_ok in H. revert H. cbv zeta. bel. intros name Hn.
  destruct (file_name path); [|discriminate]. intros H. apply with_tbl_ok in H. revert H. bel. intros sv Hb H. injection H as <- _ _.
  exists name. revert Hb. unfold volume_body. cbv zeta. bel. intros base _. bel. intros drv _. bel. intros [a1 svc1] _.
  bel. intros svc2 H2 H3. eexists. eexists. split; [exact Hn|].
  rewrite (one_shot_keeps_execstart _ _ _ H3), (add_raw_exec_execstart _ _ _ H2). reflexivity.
Qed.

Theorem network_creates podman u path tbl svc sp t' : from_network podman u path tbl = COk (svc, sp, t') ->
  exists name before pre, network_name u path = COk name /\ vals svc SEC_S (s2l "ExecStart") = before ++ [quote_words (pre ++ [name])].
Proof.
  unfold from_network. bel. intros [inf svc0] _ H. apply lift_ok in H. revert H. bel. intros name Hn. bel. intros sv Hb. destruct (file_name path); [|discriminate]. intros H. injection H as <- _ _.
  exists name. revert Hb. unfold network_body. cbv zeta.
  bel. intros base _. bel. intros a1 _. bel. intros a2 _. bel. intros sn _. bel. intros gw _. bel. intros rg _. bel. intros a3 _.
  bel. intros svc1 H1 H2. eexists. eexists. split; [exact Hn|].
  rewrite (one_shot_keeps_execstart _ _ _ H2), (add_raw_exec_execstart _ _ _ H1). reflexivity.
Qed.

(* in the sorted run a unit of lower type priority comes first *)
Lemma lower_priority_first l1 y l2 x :
  Sorted.StronglySorted (fun a b => prio a <= prio b) (l1 ++ y :: l2) -> In x (l1 ++ y :: l2) -> prio x < prio y -> In x l1.
Proof.
  intros Hs Hin Hlt. apply in_app_or in Hin. destruct Hin as [H|[->|H]]; [exact H|lia|]. exfalso.
  induction l1 as [|z r IH]; cbn [app] in Hs.
  - inversion Hs as [|? ? _ Hall]; subst. rewrite Forall_forall in Hall. specialize (Hall x H). lia.
  - inversion Hs; subst. apply IH. assumption.
Qed.
