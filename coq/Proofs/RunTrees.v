(* The run theorems of C09 (pods and their members) and C10 (independence of the other files) transferred from process_files (no
   drop-ins) to process_trees (every unit merged with its drop-ins before the name table is built, Model/ProcessD.v): the run
   lemmas (run_mono, run_monoS, pod_wants_registered, container_pod_wiring) are about lists of loaded units, so what has to be
   redone is only what is said about the LOADER: which units it yields, that filtering the files filters the units, that a unit's
   type is the type of its path, that a merged unit has distinct section names and starts with no registered container. *)
From Coq Require Import Sorting.Permutation.
From QV Require Import Model.Base Generated.Tables Model.Quote Model.Unit Model.Parser Model.Path Model.Names Model.Convert Model.Process
  Model.ProcessD Proofs.C07 Proofs.C07run Proofs.C08 Proofs.C09 Proofs.C09run Proofs.C10 Proofs.C10run Proofs.C10pods Proofs.C06trees.
Open Scope N_scope.
Local Notation L := s2l (only parsing).

Section RunTrees.
Variables (podman : str) (exists_path : str -> bool) (kill_fixed mount_nl : bool) (names_after : bool).
Notation pt := (process_trees podman exists_path kill_fixed mount_nl names_after).
Notation run l tbl := (convert_all podman exists_path kill_fixed mount_nl l tbl).
Notation conv x tbl := (convert_one podman exists_path kill_fixed mount_nl (l_unit x) (l_path x) (i_type (l_info x)) tbl).
Notation fin := (final_tbl podman exists_path kill_fixed mount_nl).
Notation mem := (members podman exists_path kill_fixed mount_nl).
Notation tpath := (fun f : str * str * list str => fst (fst f)).

Definition tree_units (files : list (str * str * list str)) : list loaded :=
  flat_map (fun p : str * load_res => match snd p with LOk u i => [{| l_path := fst p; l_unit := u; l_info := i |}] | _ => [] end)
    (map (fun f : str * str * list str => (fst (fst f), load_tree names_after (fst (fst f)) (snd (fst f)) (snd f))) files).

Lemma process_trees_snd files : snd (pt files) = run (sort_units (tree_units files)) (table_of (sort_units (tree_units files))).
Proof. reflexivity. Qed.

Theorem trees_one_load_result_per_file files : map fst (fst (pt files)) = map tpath files.
Proof. unfold process_trees. cbn [fst]. rewrite map_map. cbn [fst]. reflexivity. Qed.

Theorem trees_each_unit_converted_once files :
  map fst (snd (pt files)) = map l_path (sort_units (tree_units files)) /\ Permutation (tree_units files) (sort_units (tree_units files)).
Proof. rewrite process_trees_snd. split; [apply convert_all_paths|apply sort_units_perm]. Qed.

Lemma tree_units_app f1 f2 : tree_units (f1 ++ f2) = tree_units f1 ++ tree_units f2.
Proof. unfold tree_units. rewrite map_app, flat_map_app. reflexivity. Qed.

(* a file that does not load (main file unreadable, unsupported type, bad ServiceName...) takes no part in the conversions *)
Theorem trees_unloadable_file_changes_nothing files1 files2 p t ds :
  (forall u i, load_tree names_after p t ds <> LOk u i) ->
  snd (pt (files1 ++ (p, t, ds) :: files2)) = snd (pt (files1 ++ files2)).
Proof.
  intros H. rewrite !process_trees_snd.
  assert (E : tree_units (files1 ++ (p, t, ds) :: files2) = tree_units (files1 ++ files2)).
  { rewrite !tree_units_app. f_equal. unfold tree_units. cbn [map flat_map fst snd].
    destruct (load_tree names_after p t ds) as [u i| | |] eqn:El; [exfalso; exact (H u i eq_refl)| | |]; reflexivity. }
  rewrite E. reflexivity.
Qed.

Lemma tree_units_filter (keepp : str -> bool) files :
  tree_units (filter (fun f => keepp (tpath f)) files) = filter (fun x => keepp (l_path x)) (tree_units files).
Proof.
  unfold tree_units. induction files as [|[[p txt] ds] r IH]; [reflexivity|]. cbn [filter fst map flat_map snd].
  destruct (keepp p) eqn:Ek.
  - cbn [map flat_map fst snd]. rewrite IH. destruct (load_tree names_after p txt ds); cbn [app filter l_path]; rewrite ?Ek; reflexivity.
  - rewrite IH. destruct (load_tree names_after p txt ds); cbn [app filter l_path]; rewrite ?Ek; reflexivity.
Qed.

Lemma unit_info_type u p i : unit_info u p = COk i -> exists t, type_of_path p = Some t /\ i_type i = t.
Proof.
  intros Ei. unfold unit_info in Ei. destruct (type_of_path p) as [t|]; [|discriminate]. exists t. split; [reflexivity|].
  destruct (service_name_of u p t); cbn [bind] in Ei; try discriminate.
  destruct (match t with TBuild => _ | TContainer => _ | _ => _ end); cbn [bind] in Ei; try discriminate. injection Ei as <-. reflexivity.
Qed.

(* what the loader yields: a unit for a path of the input, whose type is the type of that path, whose text is the main file merged
   with (a prefix of) its drop-ins, with distinct section names and no registered container *)
Lemma tree_units_spec files x : In x (tree_units files) ->
  In (l_path x) (map tpath files) /\ (exists t, type_of_path (l_path x) = Some t /\ i_type (l_info x) = t) /\
  NoDup (map fst (l_unit x)) /\ i_containers (l_info x) = [] /\
  exists text ds u0, In (l_path x, text, ds) files /\ parse_unit text = Some u0 /\ l_unit x = fst (merge_dropins u0 ds).
Proof.
  unfold tree_units. intros Hx. apply in_flat_map in Hx. destruct Hx as [[q lr] [Hq Hx]]. apply in_map_iff in Hq.
  destruct Hq as [[[q' text] ds] [Eq Hin]]. cbn [fst snd] in Eq. injection Eq as <- <-. cbn [snd fst] in Hx.
  destruct (load_tree names_after q' text ds) as [u0 i0| | |] eqn:El; [|destruct Hx|destruct Hx|destruct Hx].
  destruct Hx as [<-|[]]. cbn [l_unit l_path l_info]. unfold load_tree in El. destruct (parse_unit text) as [u1|] eqn:Ep; [|discriminate]. cbv zeta in El.
  destruct (unit_info (if names_after then fst (merge_dropins u1 ds) else u1) q') as [i1| | |] eqn:Ei; try discriminate. injection El as <- <-.
  split; [apply in_map_iff; exists (q', text, ds); split; [reflexivity|exact Hin]|].
  split; [exact (unit_info_type _ _ _ Ei)|].
  split; [apply merge_dropins_nodup; exact (parse_nodup _ _ Ep)|].
  split; [exact (unit_info_containers _ _ _ Ei)|].
  exists text, ds, u1. auto.
Qed.

Lemma tree_sorted_in files x : In x (sort_units (tree_units files)) -> In x (tree_units files).
Proof. intros Hx. apply (Permutation_in _ (Permutation_sym (sort_units_perm _))). exact Hx. Qed.

(* ---- C09 on the run with drop-ins ---- *)
Theorem trees_pods_want_exactly_their_members files l1 xp l2 P svc sp t' :
  sort_units (tree_units files) = l1 ++ xp :: l2 -> i_type (l_info xp) = TPod -> file_name (l_path xp) = Some P ->
  let tbl0 := table_of (sort_units (tree_units files)) in
  conv xp (fin l1 tbl0) = COk (svc, sp, t') ->
  (forall x, In x l2 -> i_type (l_info x) <> TContainer) /\
  sfile tbl0 P = Some sp /\
  exists pre, (pre = [] \/ pre = [s2l "network-online.target"]) /\
    vals svc SEC_U (s2l "Wants") = pre ++ vals (l_unit xp) SEC_U (s2l "Wants") ++ map quote_value (mem l1 tbl0 P) /\
    vals svc SEC_U (s2l "Before") = vals (l_unit xp) SEC_U (s2l "Before") ++ map quote_value (mem l1 tbl0 P).
Proof.
  intros Hsort Ht Hf tbl0 Hc.
  assert (Hxp : In xp (tree_units files)) by (apply tree_sorted_in; rewrite Hsort; apply in_or_app; right; left; reflexivity).
  destruct (tree_units_spec _ _ Hxp) as (_ & _ & Hnd & _).
  assert (Hc0 : forall Q, conts tbl0 Q = []).
  { apply table_of_conts. rewrite Forall_forall. intros x Hx. destruct (tree_units_spec _ _ (tree_sorted_in _ _ Hx)) as (_ & _ & _ & E & _). exact E. }
  split; [|].
  - apply (sorted_tail_not_container l1 xp l2); [rewrite <- Hsort; apply sort_units_sorted|exact Ht].
  - destruct (pod_wants_registered podman exists_path kill_fixed mount_nl l1 xp tbl0 svc sp t' P Hnd Ht Hf Hc) as [Hs (pre & Hpre & HW & HB)].
    split; [exact Hs|]. exists pre. rewrite Hc0 in HW, HB. cbn [app] in HW, HB. auto.
Qed.

(* ---- C10 on the run with drop-ins ---- *)
Definition tree_results (files : list (str * str * list str)) : list (loaded * conv_res) :=
  combine (sort_units (tree_units files)) (map snd (snd (pt files))).

Theorem trees_added_files_change_nothing (keepp : str -> bool) files :
  (forall p q, In p (map tpath files) -> In q (map tpath files) -> keepp p = true -> keepp q = false ->
     forall f, file_name p = Some f -> file_name q <> Some f) ->
  (forall x r, In (x, r) (tree_results (filter (fun f => keepp (tpath f)) files)) -> is_podu x = false -> exists svc sp, r = ROk svc sp) ->
  Forall2 (fun a b => fst a = fst b /\ (is_podu (fst a) = false -> snd a = snd b))
    (tree_results (filter (fun f => keepp (tpath f)) files))
    (filter (fun p => keepp (l_path (fst p))) (tree_results files)).
Proof.
  intros Hd Hs. unfold tree_results in *. rewrite !process_trees_snd in *. rewrite tree_units_filter, sort_filter in *.
  set (keep := fun x : loaded => keepp (l_path x)) in *. set (big := sort_units (tree_units files)) in *.
  set (J := junk_names keep big).
  assert (Hbig : forall x, In x big -> In (l_path x) (map tpath files) /\ exists t, type_of_path (l_path x) = Some t /\ i_type (l_info x) = t).
  { intros x Hx. destruct (tree_units_spec files x) as (A & B & _); [apply sort_units_in; exact Hx|]. split; assumption. }
  assert (HJ : forall x, In x big -> keep x = false -> forall f, file_name (l_path x) = Some f -> In f J).
  { intros x Hx Hk f Hf. apply junk_names_in. exists x. auto. }
  assert (HK0 : forall x, In x big -> keep x = true -> forall f, file_name (l_path x) = Some f -> ~ In f J).
  { intros x Hx Hk f Hf Hin. apply junk_names_in in Hin. destruct Hin as (y & Hy & Hky & Hny).
    exact (Hd (l_path x) (l_path y) (proj1 (Hbig x Hx)) (proj1 (Hbig y Hy)) Hk Hky f Hf Hny). }
  apply (run_mono podman exists_path kill_fixed mount_nl keep J big).
  - apply table_of_inv; [exact HJ|exact HK0].
  - exact HJ.
  - intros x Hx Hk Hp f Hf. split; [exact (HK0 x Hx Hk f Hf)|].
    destruct (is_pod_name f) eqn:E; [|reflexivity]. exfalso. destruct (Hbig x Hx) as (_ & t & Ht & Hi).
    pose proof (pod_name_type _ _ _ Hf E Ht) as ->. unfold is_podu in Hp. rewrite Hi in Hp. discriminate Hp.
  - exact Hs.
Qed.

Theorem trees_added_files_change_nothing_pods (keepp : str -> bool) files :
  (forall p q, In p (map tpath files) -> In q (map tpath files) -> keepp p = true -> keepp q = false ->
     forall f, file_name p = Some f -> file_name q <> Some f) ->
  (forall x r, In (x, r) (tree_results (filter (fun f => keepp (tpath f)) files)) -> is_podu x = false -> exists svc sp, r = ROk svc sp) ->
  let T := junk_pods (fun x => keepp (l_path x)) (sort_units (tree_units files)) in
  Forall2 (fun a b => fst a = fst b /\ (stable_unit T (fst a) = true -> forall svc sp, snd a = ROk svc sp -> snd b = ROk svc sp))
    (tree_results (filter (fun f => keepp (tpath f)) files))
    (filter (fun p => keepp (l_path (fst p))) (tree_results files)).
Proof.
  intros Hd Hs T. unfold tree_results in *. rewrite !process_trees_snd in *. rewrite tree_units_filter, sort_filter in *.
  set (keep := fun x : loaded => keepp (l_path x)) in *. set (big := sort_units (tree_units files)) in *.
  set (J := junk_names keep big).
  set (S := fun n : str => is_pod_name n = false \/ ~ In n T).
  assert (Hbig : forall x, In x big -> In (l_path x) (map tpath files) /\ exists t, type_of_path (l_path x) = Some t /\ i_type (l_info x) = t).
  { intros x Hx. destruct (tree_units_spec files x) as (A & B & _); [apply sort_units_in; exact Hx|]. split; assumption. }
  assert (HJ : forall x, In x big -> keep x = false -> forall f, file_name (l_path x) = Some f -> In f J).
  { intros x Hx Hk f Hf. apply junk_names_in. exists x. auto. }
  assert (HK0 : forall x, In x big -> keep x = true -> forall f, file_name (l_path x) = Some f -> ~ In f J).
  { intros x Hx Hk f Hf Hin. apply junk_names_in in Hin. destruct Hin as (y & Hy & Hky & Hny).
    exact (Hd (l_path x) (l_path y) (proj1 (Hbig x Hx)) (proj1 (Hbig y Hy)) Hk Hky f Hf Hny). }
  apply (run_monoS S podman exists_path kill_fixed mount_nl keep (stable_unit T) J big).
  - apply table_of_invS; [exact HJ|exact HK0].
  - exact HJ.
  - intros x Hx Hk tb P i' Hreg [Hp|Hn].
    + destruct (pod_reg_key _ _ _ _ Hreg) as [_ E]. rewrite E in Hp. discriminate Hp.
    + apply Hn. apply junk_pods_in. exists x. split; [exact Hx|]. split; [exact Hk|]. exact (proj1 (pod_reg_key _ _ _ _ Hreg)).
  - intros x Hx Hk Hst f Hf. split; [exact (HK0 x Hx Hk f Hf)|].
    unfold stable_unit in Hst. apply orb_prop in Hst. destruct Hst as [Hst|Hst].
    + left. destruct (is_pod_name f) eqn:E; [|reflexivity]. exfalso. destruct (Hbig x Hx) as (_ & t & Ht & Hi).
      pose proof (pod_name_type _ _ _ Hf E Ht) as ->. unfold is_podu in Hst. rewrite Hi in Hst. discriminate Hst.
    + right. unfold name_of in Hst. rewrite Hf in Hst. intros Hin. apply mem_str_In in Hin. rewrite Hin in Hst. discriminate Hst.
  - intros x Hx Hk Hp. unfold stable_unit. rewrite Hp. reflexivity.
  - exact Hs.
Qed.

(* the member's side (the proof of members_are_bound_to_their_pod says nothing about the loader) *)
Theorem trees_members_are_bound_to_their_pod files l1 xc l2 svc sp t' c p :
  sort_units (tree_units files) = l1 ++ xc :: l2 -> i_type (l_info xc) = TContainer ->
  @lk berr (l_unit xc) c_CONTAINER_SECTION (s2l "Pod") = COk (Some (c :: p)) ->
  let tbl0 := table_of (sort_units (tree_units files)) in
  conv xc (fin l1 tbl0) = COk (svc, sp, t') ->
  exists psf, sfile tbl0 (c :: p) = Some psf /\ ends_with (s2l ".pod") (c :: p) = true /\
    In (quote_value psf) (vals svc SEC_U (s2l "BindsTo")) /\ In (quote_value psf) (vals svc SEC_U (s2l "After")) /\
    (exists before pre post, vals svc SEC_S (s2l "ExecStart") =
       before ++ [quote_words (pre ++ [s2l "--pod-id-file"; s2l "%t/" ++ strip_service psf ++ s2l ".pod-id"] ++ post)]) /\
    (start_with_pod (l_unit xc) = true -> own_sfile xc (fin l1 tbl0) = Some sp /\ In sp (mem (l1 ++ [xc]) tbl0 (c :: p))).
Proof.
  intros Hsort Ht Hl tbl0 Hc. assert (Hc' := Hc). rewrite Ht in Hc'. cbn [convert_one] in Hc'.
  destruct (container_pod_wiring _ _ _ _ _ _ _ _ _ _ _ _ Hl Hc') as (i & He & Hg & HB & HA & HX).
  exists (service_file_name i). split; [|split; [exact He|split; [exact HB|split; [exact HA|split; [exact HX|]]]]].
  - rewrite <- (final_sfile podman exists_path kill_fixed mount_nl l1 tbl0 (c :: p)). unfold sfile. rewrite Hg. reflexivity.
  - intros Hst. destruct (container_ok_out _ _ _ _ _ _ _ _ _ _ Hc') as (inf & svc0 & Hp & Hsp & _).
    destruct (prologue_ok _ _ _ _ _ _ _ Hp) as (fname & Ef & Eg).
    assert (Hown : own_sfile xc (fin l1 tbl0) = Some sp) by (unfold own_sfile, sfile; rewrite Ef, Eg, Hsp; reflexivity).
    split; [exact Hown|].
    assert (E : forall l t, mem (l ++ [xc]) t (c :: p) = mem l t (c :: p) ++ regd podman exists_path kill_fixed mount_nl xc (fin l t) (c :: p)).
    { induction l as [|y r IH]; intros t; cbn [app members final_tbl]; [rewrite app_nil_r; reflexivity|]. rewrite IH, app_assoc. reflexivity. }
    rewrite E. apply in_or_app. right. unfold regd. rewrite Ht. cbn [convert_one]. rewrite Hc', Hown.
    assert (Hr : pod_reg (l_unit xc) (fin l1 tbl0) = Some (c :: p, i)) by (apply pod_reg_spec; repeat split; try assumption; discriminate).
    rewrite Hr, str_eqb_refl. left. reflexivity.
Qed.

End RunTrees.

(* ---- the drop-ins matter: a container made a member of the pod by a drop-in is in the pod's Wants=/Before=, and a drop-in of an
   unrelated unit changes nothing for the pod ---- *)
Definition ext_pod : str * str * list str := (L "/d/pd.pod", L "[Pod]" ++ [10], []).
Definition ext_plain : str * str * list str := (L "/d/in.container", L "[Container]" ++ [10] ++ L "Image=img" ++ [10], []).
Definition ext_joined : str * str * list str :=
  (L "/d/in.container", L "[Container]" ++ [10] ++ L "Image=img" ++ [10], [L "[Container]" ++ [10] ++ L "Pod=pd.pod" ++ [10]]).
Definition ext_other : str * str * list str :=
  (L "/d/in.container", L "[Container]" ++ [10] ++ L "Image=img" ++ [10], [L "[Container]" ++ [10] ++ L "Label=a=b" ++ [10]]).
Definition tree_pod_wants (files : list (str * str * list str)) : option (list str) :=
  match assoc_str (L "/d/pd.pod") (snd (process_trees (L "/usr/bin/podman") (fun _ => false) true false true files)) with
  | Some (ROk svc _) => Some (vals svc SEC_U (L "Wants"))
  | _ => None
  end.

Example dropin_membership_example :
  tree_pod_wants [ext_pod; ext_plain] = Some [L "network-online.target"] /\
  tree_pod_wants [ext_pod; ext_other] = Some [L "network-online.target"] /\
  tree_pod_wants [ext_pod; ext_joined] = Some [L "network-online.target"; L "in.service"].
Proof. vm_compute. repeat split. Qed.
