From QV Require Import Model.Base Model.Path Spec.CleanRef Proofs.Util.
Open Scope N_scope.

(* ---- splitting ---- *)
Lemma split_on_nonnil sep s : split_on sep s <> [].
Proof. destruct s as [|c r]; cbn [split_on]; [discriminate|]. destruct (c =? sep); [discriminate|]. destruct (split_on sep r); discriminate. Qed.

Lemma split_on_app_sep sep a b : split_on sep (a ++ sep :: b) = split_on sep a ++ split_on sep b.
Proof.
  induction a as [|c a IH]; cbn [app split_on].
  - rewrite N.eqb_refl. reflexivity.
  - destruct (c =? sep); [rewrite IH; reflexivity|].
    rewrite IH. pose proof (split_on_nonnil sep a) as Hn. destruct (split_on sep a) as [|w ws]; [congruence|]. reflexivity.
Qed.

Lemma segs_app_sep a b : segs (a ++ cSLASH :: b) = segs a ++ segs b.
Proof. unfold segs. change 47 with cSLASH. rewrite split_on_app_sep, filter_app. reflexivity. Qed.

Lemma segs_nil : segs [] = [].
Proof. reflexivity. Qed.

Lemma ends_with_last c l : ends_with [c] l = true -> exists l', l = l' ++ [c].
Proof.
  unfold ends_with. cbn [rev app]. intros H. destruct (rev l) as [|x r] eqn:E; [discriminate|].
  cbn [starts_with] in H. apply andb_true_iff in H. destruct H as [H _]. apply N.eqb_eq in H. subst x.
  exists (rev r). rewrite <- (rev_involutive l), E. reflexivity.
Qed.

Lemma segs_join D p : D <> [] -> is_absolute p = false -> segs (path_join D p) = segs D ++ segs p.
Proof.
  intros HD Hp. unfold path_join. rewrite Hp. destruct D as [|d D']; [congruence|].
  destruct (ends_with [cSLASH] (d :: D')) eqn:E.
  - destruct (ends_with_last _ _ E) as [l' ->]. rewrite <- app_assoc. cbn [app].
    rewrite !segs_app_sep, segs_nil, app_nil_r. reflexivity.
  - change ((d :: D') ++ [cSLASH] ++ p) with ((d :: D') ++ cSLASH :: p). apply segs_app_sep.
Qed.

Lemma join_abs D p : is_absolute D = true -> is_absolute p = false -> is_absolute (path_join D p) = true.
Proof.
  intros HD Hp. unfold path_join. rewrite Hp. destruct D as [|d D']; [discriminate|].
  destruct (ends_with [cSLASH] (d :: D')); exact HD.
Qed.

(* ---- cleaning an absolute path = walking its segments ---- *)
Lemma clean_walk ss : forall pos,
  fold_left clean_step (map classify (filter (fun s => negb (str_eqb s dot)) ss)) (CRoot :: map CNormal pos)
  = CRoot :: map CNormal (walk pos ss).
Proof.
  induction ss as [|s r IH]; intros pos; [reflexivity|].
  cbn [filter walk]. change sdot with dot. change sdotdot with dotdot.
  destruct (str_eqb s dot) eqn:Ed; cbn [negb]; [apply IH|].
  cbn [map fold_left]. destruct (str_eqb s dotdot) eqn:Edd.
  - assert (Ec : classify s = CParent) by (unfold classify; rewrite Edd; reflexivity). rewrite Ec.
    change (clean_step (CRoot :: map CNormal pos) CParent) with (pb_pop (CRoot :: map CNormal pos)).
    assert (E : pb_pop (CRoot :: map CNormal pos) = CRoot :: map CNormal (removelast pos)).
    { destruct pos as [|x pos']; [reflexivity|]. unfold pb_pop. cbn [map].
      change (removelast (CRoot :: CNormal x :: map CNormal pos')) with (CRoot :: removelast (CNormal x :: map CNormal pos')).
      f_equal. rewrite <- removelast_map. reflexivity. }
    rewrite E. apply IH.
  - assert (Ec : classify s = CNormal s) by (unfold classify; rewrite Edd; reflexivity). rewrite Ec.
    change (clean_step (CRoot :: map CNormal pos) (CNormal s)) with ((CRoot :: map CNormal pos) ++ [CNormal s]).
    assert (E : (CRoot :: map CNormal pos) ++ [CNormal s] = CRoot :: map CNormal (pos ++ [s])) by (rewrite map_app; reflexivity).
    rewrite E. apply IH.
Qed.

Lemma cleaned_abs q : is_absolute q = true -> cleaned q = resolve_abs (segs q).
Proof.
  intros H. unfold cleaned, components. rewrite H. cbn [fold_left clean_step pb_push].
  change [CRoot] with (CRoot :: map CNormal []). rewrite clean_walk. unfold resolve_abs. cbn [render_comps].
  rewrite map_map. cbn [comp_str]. rewrite map_id. reflexivity.
Qed.

Theorem abs_resolution D p : is_absolute D = true -> starts_with_systemd_specifier p = false ->
  absolute_from p D = Some (resolve_abs (if is_absolute p then segs p else segs D ++ segs p)).
Proof.
  intros HD Hs. unfold absolute_from. rewrite Hs. cbn [negb andb].
  destruct (is_absolute p) eqn:Hp; cbn [negb].
  - rewrite cleaned_abs by exact Hp. reflexivity.
  - destruct D as [|d D']; [discriminate|].
    rewrite cleaned_abs by (apply join_abs; assumption).
    rewrite segs_join by (try discriminate; assumption). reflexivity.
Qed.

Theorem specifier_not_resolved D p : starts_with_systemd_specifier p = true -> absolute_from p D = Some (cleaned p).
Proof. intros H. unfold absolute_from. rewrite H. reflexivity. Qed.

(* ---- the walked position is normal ---- *)
Lemma In_removelast {A} (x : A) l : In x (removelast l) -> In x l.
Proof.
  induction l as [|y l IH]; [auto|]. destruct l as [|z l']; [cbn; tauto|].
  change (removelast (y :: z :: l')) with (y :: removelast (z :: l')).
  intros [H|H]; [left; exact H|right; apply IH; exact H].
Qed.

Lemma walk_normal ss : forall pos,
  Forall (fun s => s <> []) ss ->
  Forall (fun s => s <> [] /\ s <> sdot /\ s <> sdotdot) pos ->
  Forall (fun s => s <> [] /\ s <> sdot /\ s <> sdotdot) (walk pos ss).
Proof.
  induction ss as [|s r IH]; intros pos Hss Hpos; [exact Hpos|].
  inversion Hss as [|? ? Hs Hr]; subst. cbn [walk].
  destruct (str_eqb_spec s sdot); [apply IH; assumption|].
  destruct (str_eqb_spec s sdotdot).
  - apply IH; [assumption|]. rewrite Forall_forall in *. intros x Hx. apply Hpos. apply In_removelast. exact Hx.
  - apply IH; [assumption|]. apply Forall_app. split; [assumption|]. constructor; [|constructor]. auto.
Qed.

Lemma segs_nonempty p : Forall (fun s => s <> []) (segs p).
Proof. unfold segs. rewrite Forall_forall. intros x Hx. apply filter_In in Hx. destruct Hx as [_ Hx]. destruct x; [discriminate|discriminate]. Qed.

Theorem resolution_normal D p :
  Forall (fun s => s <> [] /\ s <> sdot /\ s <> sdotdot) (walk [] (if is_absolute p then segs p else segs D ++ segs p)).
Proof.
  apply walk_normal; [|constructor].
  destruct (is_absolute p); [apply segs_nonempty|]. apply Forall_app. split; apply segs_nonempty.
Qed.

(* the position never depends on anything but D and p, and is spelled as an absolute path *)
Theorem result_absolute D p r : is_absolute D = true -> starts_with_systemd_specifier p = false ->
  absolute_from p D = Some r -> is_absolute r = true.
Proof. intros HD Hs H. rewrite (abs_resolution D p HD Hs) in H. injection H as <-. reflexivity. Qed.

Example resolution_examples :
  absolute_from (s2l "../x/./y//z/..") (s2l "/etc/containers/systemd/sub") = Some (s2l "/etc/containers/systemd/x/y") /\
  absolute_from (s2l "../../../../../..") (s2l "/a/b") = Some (s2l "/") /\
  absolute_from (s2l "/p//q/../r/") (s2l "/a") = Some (s2l "/p/r") /\
  absolute_from (s2l "%t/../x") (s2l "/a") = Some (s2l "x") /\
  absolute_from (s2l "%h/cfg") (s2l "/a") = Some (s2l "%h/cfg") /\
  absolute_from (s2l "rel") [] = None.
Proof. vm_compute. repeat split; reflexivity. Qed.
