(* C09: pod membership is wired through the name table. *)
From QV Require Import Model.Base Generated.Tables Model.Quote Model.Unquote Model.Split Model.PortRange Model.Unit Model.Path
  Model.Names Model.Convert Model.Process Proofs.Util Proofs.C07.
Open Scope N_scope.
Local Notation L := s2l (only parsing).

Definition pod_deps (svc : unit) (psn : str) : unit := unit_add (unit_add svc SEC_U (L "BindsTo") psn) SEC_U (L "After") psn.

(* a container naming Pod=p.pod, p in the table: pod-id file of p's service, BindsTo=/After= p's service file, and p's list of
   containers to start gains this container's service exactly when StartWithPod is not switched off *)
Theorem pod_member u sec svc svc_path tbl args c p i :
  @lk berr u sec (L "Pod") = COk (Some (c :: p)) -> ends_with (L ".pod") (c :: p) = true -> tbl_get tbl (c :: p) = Some i ->
  handle_pod u sec svc svc_path tbl args =
  COk (args ++ [L "--pod-id-file"; L "%t/" ++ pod_unit_name i ++ L ".pod-id"], pod_deps svc (service_file_name i),
       if match lookup_bool u sec (L "StartWithPod") with Some b => b | None => true end
       then tbl_set tbl (c :: p) (with_container i svc_path) else tbl).
Proof. intros Hl He Ht. unfold handle_pod. rewrite Hl. cbn [bind]. rewrite He. cbn [negb]. rewrite Ht. reflexivity. Qed.

Theorem pod_not_a_pod_file u sec svc svc_path tbl args c p :
  @lk berr u sec (L "Pod") = COk (Some (c :: p)) -> ends_with (L ".pod") (c :: p) = false ->
  handle_pod u sec svc svc_path tbl args = err (EInvalidPod (c :: p)).
Proof. intros Hl He. unfold handle_pod. rewrite Hl. cbn [bind]. rewrite He. reflexivity. Qed.

Theorem pod_missing u sec svc svc_path tbl args c p :
  @lk berr u sec (L "Pod") = COk (Some (c :: p)) -> ends_with (L ".pod") (c :: p) = true -> tbl_get tbl (c :: p) = None ->
  handle_pod u sec svc svc_path tbl args = err (EPodNotFound (c :: p)).
Proof. intros Hl He Ht. unfold handle_pod. rewrite Hl. cbn [bind]. rewrite He. cbn [negb]. rewrite Ht. reflexivity. Qed.

Theorem no_pod_no_change u sec svc svc_path tbl args :
  (@lk berr u sec (L "Pod") = COk None \/ @lk berr u sec (L "Pod") = COk (Some [])) ->
  handle_pod u sec svc svc_path tbl args = COk (args, svc, tbl).
Proof. intros [H|H]; unfold handle_pod; rewrite H; reflexivity. Qed.

(* the pod's service wants, and is ordered before, exactly the recorded containers, in order, after whatever was there *)
Definition add_members (svc : unit) (cs : list str) : unit :=
  fold_left (fun s c => unit_add (unit_add s SEC_U (L "Wants") c) SEC_U (L "Before") c) cs svc.

Theorem members_wired cs : forall svc,
  vals (add_members svc cs) SEC_U (L "Wants") = vals svc SEC_U (L "Wants") ++ map quote_value cs /\
  vals (add_members svc cs) SEC_U (L "Before") = vals svc SEC_U (L "Before") ++ map quote_value cs.
Proof.
  unfold add_members. induction cs as [|c cs IH]; intros svc; cbn [fold_left map]; [rewrite !app_nil_r; split; reflexivity|].
  destruct (IH (unit_add (unit_add svc SEC_U (L "Wants") c) SEC_U (L "Before") c)) as [A B].
  rewrite A, B. rewrite !vals_unit_add. rewrite !str_eqb_refl. cbn [andb].
  assert (E1 : str_eqb (L "Before") (L "Wants") = false) by reflexivity.
  assert (E2 : str_eqb (L "Wants") (L "Before") = false) by reflexivity.
  rewrite E1, E2. rewrite !app_nil_r, <- !app_assoc. split; reflexivity.
Qed.

(* pinned: the pod-id path used the pod's service NAME while the pod's own service uses %N, i.e. its service FILE name;
   they differ when ServiceName contains a '/'.  Repaired: both use the file name. *)
Definition slash_info : info := {| i_type := TPod; i_path := L "/d/p.pod"; i_service_name := L "a/b"; i_resource_name := []; i_containers := [] |}.
Lemma slash_in_service_name :
  service_file_name slash_info = L "b.service" /\ (L "%t/" ++ i_service_name slash_info ++ L ".pod-id") = L "%t/a/b.pod-id" /\
  (L "%t/" ++ pod_unit_name slash_info ++ L ".pod-id") = L "%t/b.pod-id".
Proof. vm_compute. repeat split; reflexivity. Qed.
