(* C10, discovery order: a unit that converts ON ITS OWN (a run over that single file succeeds) has that same result in every run
   that contains the file, whatever else is there and in whatever order the files were discovered -- a corollary of the
   independence theorem with the subset {p}.  (Units that reference others are covered by the independence theorem for a fixed
   relative order; that units of one type priority commute is not proved, see DESIGN.) *)
From Coq Require Import Sorting.Permutation.
From QV Require Import Model.Base Generated.Tables Model.Unit Model.Path Model.Names Model.Convert Model.Process Proofs.C10 Proofs.C10run.
Open Scope N_scope.
Local Notation L := s2l (only parsing).

Lemma filter_single (files : list (str * str)) p t : NoDup (map fst files) -> In (p, t) files ->
  filter (fun f => str_eqb p (fst f)) files = [(p, t)].
Proof.
  induction files as [|[q u] r IH]; intros Hnd Hin; [destruct Hin|]. cbn [map fst] in Hnd. apply NoDup_cons_iff in Hnd. destruct Hnd as [Hq Hnd].
  cbn [filter fst]. destruct Hin as [E|Hin].
  - injection E as -> ->. rewrite str_eqb_refl. f_equal.
    assert (F : forall l : list (str * str), ~ In p (map fst l) -> filter (fun f => str_eqb p (fst f)) l = []).
    { induction l as [|[a b] l IHl]; intros Hn; [reflexivity|]. cbn [filter fst]. destruct (str_eqb_spec p a) as [->|_]; [exfalso; apply Hn; left; reflexivity|].
      apply IHl. intros X. apply Hn. right. exact X. }
    apply F. exact Hq.
  - destruct (str_eqb_spec p q) as [->|_]; [exfalso; apply Hq; apply in_map_iff; exists (q, t); split; [reflexivity|exact Hin]|]. apply IH; assumption.
Qed.

Section Order.
Variables (podman : str) (exists_path : str -> bool) (kill_fixed mount_nl : bool).
Notation pf := (process_files podman exists_path kill_fixed mount_nl).

Theorem lone_unit_result_everywhere files p t svc sp :
  NoDup (map fst files) -> In (p, t) files ->
  (forall q, In q (map fst files) -> q <> p -> forall f, file_name p = Some f -> file_name q <> Some f) ->
  type_of_path p <> Some TPod ->
  snd (pf [(p, t)]) = [(p, ROk svc sp)] ->
  In (p, ROk svc sp) (snd (pf files)).
Proof.
  intros Hnd Hin Hd Hp Hone.
  apply (added_files_keep_results podman exists_path kill_fixed mount_nl (fun q => str_eqb p q) files p (ROk svc sp)).
  - intros a b Ha Hb Ka Kb f Hf. destruct (str_eqb_spec p a) as [<-|]; [|discriminate Ka].
    apply (Hd b Hb); [|exact Hf]. intros ->. rewrite str_eqb_refl in Kb. discriminate Kb.
  - rewrite (filter_single files p t Hnd Hin), Hone. intros q s [E|[]] _. injection E as <- <-. eauto.
  - rewrite (filter_single files p t Hnd Hin), Hone. left. reflexivity.
  - exact Hp.
Qed.

(* hence under every order of discovery *)
Corollary lone_unit_result_any_order files files' p t svc sp :
  Permutation files files' ->
  NoDup (map fst files) -> In (p, t) files ->
  (forall q, In q (map fst files) -> q <> p -> forall f, file_name p = Some f -> file_name q <> Some f) ->
  type_of_path p <> Some TPod ->
  snd (pf [(p, t)]) = [(p, ROk svc sp)] ->
  In (p, ROk svc sp) (snd (pf files)) /\ In (p, ROk svc sp) (snd (pf files')).
Proof.
  intros HP Hnd Hin Hd Hp Hone. split; [apply (lone_unit_result_everywhere files p t); assumption|].
  apply (lone_unit_result_everywhere files' p t); try assumption.
  - apply (Permutation_NoDup (Permutation_map fst HP)). exact Hnd.
  - apply (Permutation_in _ HP). exact Hin.
  - intros q Hq. apply Hd. apply (Permutation_in _ (Permutation_sym (Permutation_map fst HP))). exact Hq.
Qed.
(* a group of files S (keepp) whose non-pod units convert on their own: each of them has the same result in ANY two runs that contain
   the group in the same relative order, whatever the other files are and wherever they sit in the order of discovery *)
Theorem group_result_any_surroundings (keepp : str -> bool) files files' p r :
  filter (fun f => keepp (fst f)) files = filter (fun f => keepp (fst f)) files' ->
  (forall a b, In a (map fst files) -> In b (map fst files) -> keepp a = true -> keepp b = false -> forall f, file_name a = Some f -> file_name b <> Some f) ->
  (forall a b, In a (map fst files') -> In b (map fst files') -> keepp a = true -> keepp b = false -> forall f, file_name a = Some f -> file_name b <> Some f) ->
  (forall q s, In (q, s) (snd (pf (filter (fun f => keepp (fst f)) files))) -> type_of_path q <> Some TPod -> exists svc sp, s = ROk svc sp) ->
  In (p, r) (snd (pf (filter (fun f => keepp (fst f)) files))) -> type_of_path p <> Some TPod ->
  In (p, r) (snd (pf files)) /\ In (p, r) (snd (pf files')).
Proof.
  intros E Hd Hd' Hs Hin Hp. split.
  - apply (added_files_keep_results podman exists_path kill_fixed mount_nl keepp files p r); assumption.
  - rewrite E in Hs, Hin. apply (added_files_keep_results podman exists_path kill_fixed mount_nl keepp files' p r); assumption.
Qed.
End Order.

(* non-vacuity: a container converts alone and keeps that service amid a volume, a failing container and an unparsable file, in
   either order *)
Definition exo_unit : str * str := (L "/d/a.container", L "[Container]" ++ [10] ++ L "Image=img" ++ [10]).
Definition exo_rest : list (str * str) :=
  [(L "/d/v.volume", L "[Volume]" ++ [10]); (L "/d/bad.container", L "[Container]" ++ [10]); (L "/d/x.network", L "[Network")].
Definition exo_run (files : list (str * str)) := snd (process_files (L "/usr/bin/podman") (fun _ => false) true false files).
Example lone_unit_example :
  exists svc sp, exo_run [exo_unit] = [(fst exo_unit, ROk svc sp)] /\
    In (fst exo_unit, ROk svc sp) (exo_run (exo_unit :: exo_rest)) /\ In (fst exo_unit, ROk svc sp) (exo_run (rev (exo_unit :: exo_rest))).
Proof. vm_compute. eexists _, _. split; [reflexivity|]. split; repeat (first [left; reflexivity | right]). Qed.
