(* C07: user sections pass through.  Multimap lemmas for the operations the converters compose, and witnesses. *)
From QV Require Import Model.Base Generated.Tables Model.Quote Model.Unquote Model.Split Model.PortRange Model.Unit Model.Lex Model.Parser
  Model.Path Model.Names Model.Convert Proofs.Util Proofs.C15.
Open Scope N_scope.

Definition vals (u : unit) (sec k : str) : list str := values_raw u sec k.

(* ---- add ---- *)
Lemma vals_add_entry u sec k raw sec' k' :
  vals (add_entry u sec k raw) sec' k' = vals u sec' k' ++ (if str_eqb sec' sec && str_eqb k k' then [raw] else []).
Proof.
  unfold vals, values_raw. destruct (str_eqb_spec sec' sec) as [->|Hne].
  - rewrite section_entries_add_same, filter_app, map_app. cbn [filter andb]. unfold key_is at 2. cbn [fst].
    destruct (str_eqb k k'); reflexivity.
  - rewrite section_entries_add_other by exact Hne. cbn [andb]. rewrite app_nil_r. reflexivity.
Qed.

Lemma vals_unit_add u sec k v sec' k' :
  vals (unit_add u sec k v) sec' k' = vals u sec' k' ++ (if str_eqb sec' sec && str_eqb k k' then [quote_value v] else []).
Proof. apply vals_add_entry. Qed.

(* ---- set: the values of every other key keep their order ---- *)
Lemma section_entries_set_other u sec k raw sec' : sec' <> sec ->
  section_entries (set_entry u sec k raw) sec' = section_entries u sec'.
Proof.
  intros Hne. unfold section_entries. induction u as [|[n es] r IH]; cbn [set_entry assoc_str].
  - destruct (str_eqb_spec sec' sec); [congruence|reflexivity].
  - destruct (str_eqb_spec sec n) as [->|Hn]; cbn [assoc_str].
    + destruct (str_eqb_spec sec' n); [congruence|reflexivity].
    + destruct (str_eqb_spec sec' n); [reflexivity|exact IH].
Qed.

Lemma section_entries_set_same u sec k raw :
  section_entries (set_entry u sec k raw) sec = set_in (section_entries u sec) k raw.
Proof.
  unfold section_entries. induction u as [|[n es] r IH]; cbn [set_entry assoc_str].
  - rewrite str_eqb_refl. reflexivity.
  - destruct (str_eqb_spec sec n) as [->|Hn]; cbn [assoc_str].
    + rewrite str_eqb_refl. reflexivity.
    + destruct (str_eqb_spec sec n); [congruence|exact IH].
Qed.

Lemma filter_key_other k k' (es : entries) : k <> k' ->
  filter (key_is k') (filter (fun e => negb (key_is k e)) es) = filter (key_is k') es.
Proof.
  intros Hne. induction es as [|[a b] es IH]; [reflexivity|]. unfold key_is in *. simpl.
  destruct (str_eqb_spec a k) as [->|Ha]; simpl.
  - destruct (str_eqb_spec k k'); [congruence|]. exact IH.
  - rewrite IH. reflexivity.
Qed.

Lemma filter_key_none k k' (es : entries) : k <> k' -> filter (key_is k') (filter (key_is k) es) = [].
Proof.
  intros Hne. induction es as [|[a b] es IH]; [reflexivity|]. unfold key_is in *. simpl.
  destruct (str_eqb_spec a k) as [->|Ha]; [|exact IH].
  simpl. destruct (str_eqb_spec k k'); [congruence|]. exact IH.
Qed.

Lemma filter_removelast_none k k' (es : entries) : k <> k' -> filter (key_is k') (removelast (filter (key_is k) es)) = [].
Proof.
  intros Hne. assert (H : forall l : entries, Forall (fun e => key_is k e = true) l -> filter (key_is k') l = []).
  { induction 1 as [|[a b] l Ha Hl IH]; [reflexivity|]. unfold key_is in *. simpl in *.
    apply str_eqb_eq in Ha. subst a. destruct (str_eqb_spec k k'); [congruence|]. exact IH. }
  apply H. assert (F : Forall (fun e => key_is k e = true) (filter (key_is k) es)).
  { rewrite Forall_forall. intros x Hx. apply filter_In in Hx. apply Hx. }
  revert F. generalize (filter (key_is k) es). intros l F. induction F as [|x l Hx Hl IH]; [constructor|].
  destruct l; [constructor|]. change (removelast (x :: e :: l)) with (x :: removelast (e :: l)). constructor; assumption.
Qed.

Lemma vals_set_other_key u sec k raw k' : k <> k' -> vals (set_entry u sec k raw) sec k' = vals u sec k'.
Proof.
  intros Hne. unfold vals, values_raw. rewrite section_entries_set_same. unfold set_in.
  rewrite !filter_app. rewrite filter_key_other by exact Hne. rewrite filter_removelast_none by exact Hne.
  unfold key_is at 2. simpl. destruct (str_eqb_spec k k'); [congruence|]. rewrite !app_nil_r. reflexivity.
Qed.

Lemma vals_set_other_sec u sec k raw sec' k' : sec' <> sec -> vals (set_entry u sec k raw) sec' k' = vals u sec' k'.
Proof. intros H. unfold vals, values_raw. rewrite section_entries_set_other by exact H. reflexivity. Qed.

(* set on the key itself: the last value is replaced (or one is added) *)
Lemma vals_set_same u sec k raw : vals (set_entry u sec k raw) sec k = removelast (vals u sec k) ++ [raw].
Proof.
  unfold vals, values_raw. rewrite section_entries_set_same. unfold set_in. rewrite !filter_app, !map_app.
  assert (E1 : filter (key_is k) (filter (fun e => negb (key_is k e)) (section_entries u sec)) = []).
  { induction (section_entries u sec) as [|[a b] es IH]; [reflexivity|]. unfold key_is in *. simpl.
    destruct (str_eqb a k) eqn:E; simpl; [exact IH|]. rewrite E. exact IH. }
  rewrite E1. unfold key_is at 3. simpl. rewrite str_eqb_refl. simpl.
  f_equal. generalize (section_entries u sec). intros es.
  assert (F : forall l : entries, Forall (fun e => key_is k e = true) l -> filter (key_is k) l = l).
  { induction 1 as [|x l Hx Hl IH]; [reflexivity|]. cbn [filter]. rewrite Hx, IH. reflexivity. }
  assert (G : Forall (fun e => key_is k e = true) (filter (key_is k) es)).
  { rewrite Forall_forall. intros x Hx. apply filter_In in Hx. apply Hx. }
  rewrite F.
  - rewrite removelast_map. reflexivity.
  - revert G. generalize (filter (key_is k) es). intros l G. induction G as [|x l Hx Hl IH]; [constructor|].
    destruct l; [constructor|]. change (removelast (x :: e :: l)) with (x :: removelast (e :: l)). constructor; assumption.
Qed.

(* ---- the pinned KillMode handling overwrites a permitted user choice; the repaired one keeps it ---- *)
Definition demo_unit : unit :=
  [(s2l "Container", [(s2l "Image", s2l "img")]); (s2l "Service", [(s2l "KillMode", s2l "control-group")])].
Definition demo_info : info :=
  {| i_type := TContainer; i_path := s2l "/d/a.container"; i_service_name := s2l "a"; i_resource_name := s2l "systemd-a"; i_containers := [] |}.
Definition demo_tbl : table := [(s2l "a.container", demo_info)].

Definition killmode_of (r : cres (unit * str * table)) : option (list str) :=
  match r with COk (svc, _, _) => Some (vals svc (s2l "Service") (s2l "KillMode")) | _ => None end.

Lemma killmode_pinned_refuted :
  killmode_of (convert_one (s2l "/usr/bin/podman") (fun _ => false) false true demo_unit (s2l "/d/a.container") TContainer demo_tbl)
    = Some [s2l "mixed"].
Proof. vm_compute. reflexivity. Qed.

Lemma killmode_fixed_kept :
  killmode_of (convert_one (s2l "/usr/bin/podman") (fun _ => false) true true demo_unit (s2l "/d/a.container") TContainer demo_tbl)
    = Some [s2l "control-group"].
Proof. vm_compute. reflexivity. Qed.
