From QV Require Import Model.Base.
Open Scope N_scope.

Fixpoint upto (n : nat) : list N := match n with O => [] | S k => upto k ++ [N.of_nat k] end.

Lemma upto_in n c : c < N.of_nat n -> In c (upto n).
Proof.
  induction n as [|n IH]; intros H; [lia|].
  cbn [upto]. apply in_or_app.
  destruct (N.eq_dec c (N.of_nat n)) as [->|Hne]; [right; left; reflexivity|left; apply IH; lia].
Qed.

(* lift a kernel-checked finite sweep to a universally quantified statement over c < n *)
Lemma sweep (p : N -> bool) (n : nat) : forallb p (upto n) = true -> forall c, c < N.of_nat n -> p c = true.
Proof. intros H c Hc. rewrite forallb_forall in H. apply H. apply upto_in. exact Hc. Qed.

Lemma assocN_none_ge {A} (tbl : list (N * A)) (b : N) :
  forallb (fun kv => fst kv <? b) tbl = true -> forall c, b <= c -> assocN c tbl = None.
Proof.
  induction tbl as [|[k v] r IH]; intros H c Hc; [reflexivity|].
  cbn [forallb fst] in H. apply andb_true_iff in H. destruct H as [Hk Hr].
  cbn [assocN]. apply N.ltb_lt in Hk. destruct (N.eqb_spec c k); [lia|]. apply IH; assumption.
Qed.

Definition opt_eqb (a b : option N) : bool :=
  match a, b with Some x, Some y => x =? y | None, None => true | _, _ => false end.
Lemma opt_eqb_eq a b : opt_eqb a b = true -> a = b.
Proof. destruct a, b; cbn; try discriminate; auto. intros H. apply N.eqb_eq in H. congruence. Qed.

Lemma hexval_lt c d : hexval c = Some d -> d < 16.
Proof.
  unfold hexval. intros H.
  destruct ((48 <=? c) && (c <=? 57)) eqn:E1.
  { apply andb_true_iff in E1. destruct E1 as [A B]. apply N.leb_le in A, B. injection H as <-. lia. }
  destruct ((97 <=? c) && (c <=? 102)) eqn:E2.
  { apply andb_true_iff in E2. destruct E2 as [A B]. apply N.leb_le in A, B. injection H as <-. lia. }
  destruct ((65 <=? c) && (c <=? 70)) eqn:E3; [|discriminate].
  apply andb_true_iff in E3. destruct E3 as [A B]. apply N.leb_le in A, B. injection H as <-. lia.
Qed.

Lemma is_scalar_small v : v < 55296 -> is_scalar v = true.
Proof.
  intros H. unfold is_scalar. destruct (N.ltb_spec v 55296); [|lia]. cbn [orb andb].
  apply N.leb_le. lia.
Qed.

Lemma removelast_map {A B} (f : A -> B) l : removelast (map f l) = map f (removelast l).
Proof. induction l as [|x [|y l] IH]; [reflexivity|reflexivity|]. cbn [map removelast] in *. rewrite IH. reflexivity. Qed.
