(* C11: no panic on validated data; the parser only produces validated units; totality by construction. *)
From QV Require Import Model.Base Generated.Tables Model.Quote Model.Unquote Model.Split Model.PortRange Model.Unit Model.Lex Model.Parser
  Model.Path Model.Names Model.Convert Proofs.Util Proofs.C15.
Open Scope N_scope.

Definition entry_valid (e : entry) : Prop := unquote_value (snd e) <> None.
Definition Validated (u : unit) : Prop := Forall (fun s : str * entries => Forall entry_valid (snd s)) u.

Lemma validated_add_entry u sec k raw : Validated u -> unquote_value raw <> None -> Validated (add_entry u sec k raw).
Proof.
  intros Hu Hr. induction Hu as [|[n es] r Hs Hr' IH]; cbn [add_entry].
  - constructor; [|constructor]. cbn. constructor; [exact Hr|constructor].
  - destruct (str_eqb sec n).
    + constructor; [|exact Hr']. cbn [snd] in *. apply Forall_app. split; [exact Hs|]. constructor; [exact Hr|constructor].
    + constructor; [exact Hs|exact IH].
Qed.

Lemma validated_ensure u n : Validated u -> Validated (ensure_section u n).
Proof.
  intros Hu. induction Hu as [|[m es] r Hs Hr IH]; cbn [ensure_section].
  - constructor; [constructor|constructor].
  - destruct (str_eqb n m); constructor; assumption.
Qed.

Lemma validated_finish u sec key acc u' : Validated u -> finish_entry u sec key acc = Some u' -> Validated u'.
Proof.
  unfold finish_entry, unit_add_raw. intros Hu H. destruct (unquote_value (trim_end acc)) eqn:E; [|discriminate].
  injection H as <-. apply validated_add_entry; [exact Hu|congruence].
Qed.

Lemma body_step_unit sec u c st' u' : body_step sec u c = Some (st', u') -> u' = u.
Proof.
  unfold body_step. intros H.
  repeat match type of H with (if ?b then _ else _) = _ => destruct b end; try discriminate; injection H as _ <-; reflexivity.
Qed.

Lemma pstep_validated st u c st' u' : pstep st u c = Some (st', u') -> Validated u -> Validated u'.
Proof.
  intros H Hu. destruct st as [| |name|sec|sec|sec key|sec key|sec key|sec key m ign acc]; cbn [pstep] in H.
  - repeat match type of H with (if ?b then _ else _) = _ => destruct b end; try discriminate; injection H as _ <-; exact Hu.
  - destruct (c =? cNL); injection H as _ <-; exact Hu.
  - destruct (c =? cRB).
    + destruct name; [discriminate|]. injection H as _ <-. apply validated_ensure. exact Hu.
    + destruct (c =? cNL); [discriminate|]. injection H as _ <-. exact Hu.
  - rewrite (body_step_unit _ _ _ _ _ H). exact Hu.
  - destruct (c =? cNL); injection H as _ <-; exact Hu.
  - repeat match type of H with (if ?b then _ else _) = _ => destruct b end; try discriminate; injection H as _ <-; exact Hu.
  - repeat match type of H with (if ?b then _ else _) = _ => destruct b end; try discriminate; injection H as _ <-; exact Hu.
  - destruct (is_blank c); [injection H as _ <-; exact Hu|]. unfold value_start in H.
    destruct (value_step VNormal O [] c) as [[[m' i'] a']|]; [injection H as _ <-; exact Hu|].
    destruct (finish_entry u sec key []) as [u1|] eqn:E; [|discriminate].
    rewrite (body_step_unit _ _ _ _ _ H). exact (validated_finish _ _ _ _ _ Hu E).
  - destruct (value_step m ign acc c) as [[[m' i'] a']|]; [injection H as _ <-; exact Hu|].
    destruct (finish_entry u sec key acc) as [u1|] eqn:E; [|discriminate].
    rewrite (body_step_unit _ _ _ _ _ H). exact (validated_finish _ _ _ _ _ Hu E).
Qed.

Lemma prun_validated cs : forall st u r, prun st u cs = Some r -> Validated u -> Validated r.
Proof.
  induction cs as [|c cs IH]; intros st u r H Hu.
  - cbn [prun] in H. destruct st; cbn [pfinish] in H; try discriminate; try (injection H as <-; exact Hu);
      exact (validated_finish _ _ _ _ _ Hu H).
  - cbn [prun] in H. destruct (pstep st u c) as [[st' u']|] eqn:E; [|discriminate].
    exact (IH st' u' r H (pstep_validated _ _ _ _ _ E Hu)).
Qed.

(* every value of a unit returned by the parser passed the load-time validation *)
Theorem parsed_units_validated text u : parse_unit text = Some u -> Validated u.
Proof. intros H. exact (prun_validated text PTop [] u H (Forall_nil _)). Qed.

(* merging drop-ins keeps that *)
Lemma validated_section u sec : Validated u -> Forall entry_valid (section_entries u sec).
Proof.
  intros Hu. unfold section_entries. induction Hu as [|[n es] r Hs Hr IH]; cbn [assoc_str]; [constructor|].
  destruct (str_eqb sec n); [exact Hs|exact IH].
Qed.

Lemma validated_add_entries es : forall u sec, Validated u -> Forall entry_valid es -> Validated (add_entries u sec es).
Proof.
  unfold add_entries. induction es as [|[k v] es IH]; intros u sec Hu He; [exact Hu|].
  inversion He as [|? ? H1 H2]; subst. cbn [fold_left fst snd]. apply IH; [|exact H2].
  apply validated_add_entry; [exact Hu|exact H1].
Qed.

Theorem merged_units_validated d : forall u, Validated u -> Validated d -> Validated (merge_from u d).
Proof.
  unfold merge_from. induction d as [|[n es] d IH]; intros u Hu Hd; [exact Hu|].
  inversion Hd as [|? ? H1 H2]; subst. cbn [fold_left fst snd]. apply IH; [|exact H2]. apply validated_add_entries; assumption.
Qed.

(* on validated units no look-up can hit the unquote().expect() panic *)
Lemma last_opt_in {A} (l : list A) x : last_opt l = Some x -> In x l.
Proof.
  induction l as [|y l IH]; [discriminate|]. cbn [last_opt]. destruct l as [|z l']; [intros H; injection H as <-; left; reflexivity|].
  intros H. right. apply IH. exact H.
Qed.

Theorem lookups_do_not_panic u sec key : Validated u ->
  lookup_last u sec key <> Some PPanic /\ lookup_all u sec key <> PPanic.
Proof.
  intros Hu. pose proof (validated_section u sec Hu) as Hs.
  assert (Hv : forall v, In v (values_raw u sec key) -> unquote_value v <> None).
  { intros v Hv. unfold values_raw in Hv. apply in_map_iff in Hv. destruct Hv as [e [<- He]]. apply filter_In in He.
    rewrite Forall_forall in Hs. apply Hs. apply He. }
  split.
  - unfold lookup_last, lookup_last_value. destruct (last_opt (values_raw u sec key)) as [v|] eqn:E; [|discriminate].
    pose proof (Hv v (last_opt_in _ _ E)) as Hn. destruct v; [discriminate|]. cbn [option_map]. unfold unquote_or_panic.
    destruct (unquote_value (n :: v)); [discriminate|congruence].
  - unfold lookup_all. rewrite list_rule.
    assert (He : forall v, In v (Spec.Effective.effective (values_raw u sec key)) -> unquote_value v <> None).
    { intros v Hin. apply Hv. clear -Hin. induction (values_raw u sec key) as [|x r IH]; [destruct Hin|].
      cbn [Spec.Effective.effective] in Hin. destruct (existsb Spec.Effective.is_empty r); [right; apply IH; exact Hin|].
      destruct (Spec.Effective.is_empty x); [right; exact Hin|exact Hin]. }
    induction (Spec.Effective.effective (values_raw u sec key)) as [|x r IH]; [discriminate|].
    cbn [map all_ok]. unfold unquote_or_panic at 1. pose proof (He x (or_introl eq_refl)) as Hx.
    destruct (unquote_value x); [|congruence].
    destruct (all_ok (map unquote_or_panic r)) eqn:E; [discriminate|]. exfalso. apply IH; [|reflexivity].
    intros v Hin. apply He. right. exact Hin.
Qed.

(* ---- values never contain NUL, so whatever the generator stores through add() can be read again ---- *)
Lemma uq_no_nul cs : forall g q m res r, uq_run g q m res cs = Some r -> ~ In 0 res -> ~ In 0 r.
Proof.
  induction cs as [|c cs IH]; intros g q m res r H Hres.
  - cbn in H. destruct m; try discriminate. injection H as <-. exact Hres.
  - cbn [uq_run] in H. destruct (uq_step g q m res c) as [[[q' m'] res']|] eqn:E; [|discriminate].
    apply (IH g q' m' res' r H). clear H IH.
    assert (Hsnoc : forall x, x <> 0 -> ~ In 0 (res ++ [x])).
    { intros x Hx X. apply in_app_or in X. destruct X as [X|[X|[]]]; [contradiction|congruence]. }
    destruct m as [| |n a|n a]; cbn [uq_step] in E.
    + destruct (N.eqb_spec c 0) as [|Hc]; [discriminate|].
      repeat match type of E with
      | (if ?b then _ else _) = _ => destruct b
      | match ?o with Some _ => _ | None => _ end = _ => destruct o
      end; injection E as <- <- <-; auto.
    + destruct (simple_escape c) as [r0|] eqn:Es.
      * injection E as <- <- <-. apply Hsnoc. intros ->.
        revert Es. unfold simple_escape. clear.
        assert (K : forallb (fun kv : N * list N => negb (str_eqb (snd kv) [0])) cm_quoted_parse_escape_sequence = true) by (vm_compute; reflexivity).
        revert K. generalize cm_quoted_parse_escape_sequence. induction l as [|[k v] t IHl]; intros K H; [discriminate|].
        cbn [forallb snd] in K. apply andb_true_iff in K. destruct K as [K1 K2]. cbn [assocN] in H.
        destruct (c =? k); [|exact (IHl K2 H)]. destruct v as [|v0 [|v1 vr]]; try discriminate. injection H as ->. discriminate.
      * repeat match type of E with (if ?b then _ else _) = _ => destruct b end; try discriminate; injection E as <- <- <-; exact Hres.
    + destruct (hexval c) as [d|]; [|discriminate]. destruct n as [|[|n']]; [discriminate| |injection E as <- <- <-; exact Hres].
      unfold code_to_char in E. destruct (N.eqb_spec (a * 16 + d) 0); [discriminate|]. destruct (is_scalar (a * 16 + d)); [|discriminate].
      injection E as <- <- <-. apply Hsnoc. assumption.
    + destruct (is_octdigit c); [|discriminate]. destruct n as [|[|n']]; [discriminate| |injection E as <- <- <-; exact Hres].
      unfold code_to_char in E. destruct (N.eqb_spec (a * 8 + (c - 48)) 0); [discriminate|]. destruct (is_scalar (a * 8 + (c - 48))); [|discriminate].
      injection E as <- <- <-. apply Hsnoc. assumption.
Qed.

Theorem unquoted_values_have_no_nul raw s : unquote_value raw = Some s -> ~ In 0 s.
Proof. intros H. apply (uq_no_nul raw true None UNorm [] s H). intros []. Qed.

(* pinned / known panics, on the model *)
Definition kube_root : unit := [(s2l "Kube", [(s2l "Yaml", s2l "/"); (s2l "SetWorkingDirectory", s2l "yaml")])].
Definition kube_info : info := {| i_type := TKube; i_path := s2l "/d/k.kube"; i_service_name := s2l "k"; i_resource_name := []; i_containers := [] |}.
(* repaired: WorkingDirectory of "/" is "/" (the pinned code panicked on parent().expect()) *)
Lemma working_dir_of_root :
  match convert_one (s2l "/usr/bin/podman") (fun _ => false) true false kube_root (s2l "/d/k.kube") TKube [(s2l "k.kube", kube_info)] with
  | COk (svc, _, _) => values_raw svc (s2l "Service") (s2l "WorkingDirectory") = [s2l "/"]
  | _ => False
  end.
Proof. vm_compute. reflexivity. Qed.

Lemma nul_value_panics : lookup_last (unit_add [] (s2l "Service") (s2l "WorkingDirectory") [47; 0; 47]) (s2l "Service") (s2l "WorkingDirectory") = Some PPanic.
Proof. vm_compute. reflexivity. Qed.
