(* C16 over the whole run with drop-ins: a unit file whose main file OR ANY OF ITS DROP-INS carries an undocumented key in the unit's
   own section or in [Quadlet] yields no service in the run, whatever the other files are. *)
From Coq Require Import Sorting.Permutation.
From QV Require Import Model.Base Generated.Tables Model.Quote Model.Unquote Model.Unit Model.Parser Model.Path Model.Names Model.Convert Model.Process
  Model.ProcessD Spec.Docs Proofs.C07run Proofs.C09run Proofs.C10run Proofs.C16 Proofs.C06trees Proofs.RunTrees.
Open Scope N_scope.
Local Notation L := s2l (only parsing).

Lemma keys_values u sec k : In k (keys_of u sec) <-> values_raw u sec k <> [].
Proof.
  unfold keys_of, values_raw. induction (section_entries u sec) as [|e r IH]; cbn [map filter In]; [split; [intros []|intros H; exact (H eq_refl)]|].
  unfold key_is at 1. destruct (str_eqb_spec (fst e) k) as [E|N].
  - split; [intros _; cbn [map]; discriminate|intros _; left; exact E].
  - rewrite <- IH. split; [intros [X|X]; [contradiction (N X)|exact X]|intros X; right; exact X].
Qed.

Lemma convert_all_in podman ex kf mn l : forall tbl p r, In (p, r) (convert_all podman ex kf mn l tbl) ->
  exists x tbl', In x l /\ l_path x = p /\ r = res_of (convert_one podman ex kf mn (l_unit x) (l_path x) (i_type (l_info x)) tbl').
Proof.
  induction l as [|x l IH]; intros tbl p r H; [destruct H|]. rewrite convert_all_cons in H. cbv zeta in H. destruct H as [E|H].
  - injection E as <- <-. exists x, tbl. split; [left; reflexivity|]. split; reflexivity.
  - destruct (IH _ _ _ H) as (y & t' & Hy & E1 & E2). exists y, t'. split; [right; exact Hy|]. split; assumption.
Qed.

Lemma nodup_paths_same (files : list (str * str * list str)) p t d t' d' :
  NoDup (map (fun f : str * str * list str => fst (fst f)) files) -> In (p, t, d) files -> In (p, t', d') files -> t = t' /\ d = d'.
Proof.
  induction files as [|[[q a] b] r IH]; intros Hnd H1 H2; [destruct H1|]. cbn [map fst] in Hnd. apply NoDup_cons_iff in Hnd. destruct Hnd as [Hq Hnd].
  assert (F : forall x y, In (q, x, y) r -> False).
  { intros x y Hin. apply Hq. apply in_map_iff. exists (q, x, y). split; [reflexivity|exact Hin]. }
  destruct H1 as [E1|H1], H2 as [E2|H2].
  - injection E1 as <- <- <-. injection E2 as <- <-. split; reflexivity.
  - injection E1 as <- <- <-. exfalso. exact (F _ _ H2).
  - injection E2 as <- <- <-. exfalso. exact (F _ _ H1).
  - apply IH; assumption.
Qed.

Section C16Trees.
Variables (podman : str) (exists_path : str -> bool) (kill_fixed mount_nl : bool) (names_after : bool).

Theorem trees_reject_undocumented_key files p text ds u t sec k :
  NoDup (map (fun f : str * str * list str => fst (fst f)) files) -> In (p, text, ds) files ->
  parse_unit text = Some u -> Forall (fun d => parse_unit d <> None) ds -> type_of_path p = Some t ->
  (sec = type_section t /\ mem_str k (documented t) = false) \/ (sec = c_QUADLET_SECTION /\ mem_str k doc_keys_quadlet = false) ->
  values_raw u sec k ++ dropin_values ds sec k <> [] ->
  forall svc sp, ~ In (p, ROk svc sp) (snd (process_trees podman exists_path kill_fixed mount_nl names_after files)).
Proof.
  intros Hnd Hin Hp Hds Ht Hsec Hk svc sp Hr. rewrite process_trees_snd in Hr.
  destruct (convert_all_in _ _ _ _ _ _ _ _ Hr) as (x & tbl' & Hx & Ep & Er).
  apply (tree_sorted_in names_after) in Hx. destruct (tree_units_spec names_after files x Hx) as (_ & (t0 & Ht0 & Hi) & _ & _ & (text' & ds' & u0 & Hin' & Hp' & Hu)).
  rewrite Ep in Hin', Ht0. destruct (nodup_paths_same files p text ds text' ds' Hnd Hin Hin') as [<- <-].
  rewrite Hp in Hp'. injection Hp' as <-. rewrite Ht in Ht0. injection Ht0 as <-.
  symmetry in Er. apply res_of_ok in Er. destruct Er as [t1 Ec]. rewrite Hi, Hu in Ec.
  rewrite <- (merged_history ds u sec k Hds) in Hk. apply keys_values in Hk.
  destruct Hsec as [[-> Hd]|[-> Hd]].
  - exact (reject_own podman exists_path kill_fixed mount_nl _ _ _ _ _ Hk Hd _ Ec).
  - exact (reject_quadlet podman exists_path kill_fixed mount_nl _ _ _ _ _ Hk Hd _ Ec).
Qed.
(* the bridge from the run to the converters: every service of the run with drop-ins is the result of ONE conversion of ONE input file's
   main text merged with its drop-ins (up to the first that does not load), under the type of its path, with SOME name table.  Every
   converter-level theorem ("convert_one u path t tbl = COk r -> ...", for all u and tbl) therefore speaks about every service of the run. *)
Theorem trees_results_are_conversions files p svc sp :
  In (p, ROk svc sp) (snd (process_trees podman exists_path kill_fixed mount_nl names_after files)) ->
  exists text ds u0 t tbl t1, In (p, text, ds) files /\ parse_unit text = Some u0 /\ type_of_path p = Some t /\
    convert_one podman exists_path kill_fixed mount_nl (fst (merge_dropins u0 ds)) p t tbl = COk (svc, sp, t1).
Proof.
  intros Hr. rewrite process_trees_snd in Hr.
  destruct (convert_all_in _ _ _ _ _ _ _ _ Hr) as (x & tbl' & Hx & Ep & Er).
  apply (tree_sorted_in names_after) in Hx. destruct (tree_units_spec names_after files x Hx) as (_ & (t0 & Ht0 & Hi) & _ & _ & (text' & ds' & u0 & Hin' & Hp' & Hu)).
  symmetry in Er. apply res_of_ok in Er. destruct Er as [t1 Ec]. rewrite Hi, Hu, Ep in Ec. rewrite Ep in Hin', Ht0.
  exists text', ds', u0, t0, tbl', t1. auto.
Qed.
End C16Trees.

(* non-vacuity: a key that only a DROP-IN carries stops the unit; the same tree without that drop-in converts *)
Definition exk_main : str := L "[Container]" ++ [10] ++ L "Image=img" ++ [10].
Definition exk_run (ds : list str) := snd (process_trees (L "/usr/bin/podman") (fun _ => false) true false true [(L "/d/a.container", exk_main, ds)]).
Example dropin_unknown_key_example :
  (exists svc sp, exk_run [L "[Container]" ++ [10] ++ L "Label=a=b" ++ [10]] = [(L "/d/a.container", ROk svc sp)]) /\
  exk_run [L "[Container]" ++ [10] ++ L "Lable=a=b" ++ [10]] = [(L "/d/a.container", RErr (EUnknownKey (L "Lable")))] /\
  exk_run [L "[Quadlet]" ++ [10] ++ L "Image=x" ++ [10]] = [(L "/d/a.container", RErr (EUnknownKey (L "Image")))].
Proof. vm_compute. split; [eexists _, _; reflexivity|]. split; reflexivity. Qed.
