(* C02 over the whole container command: adding one table-driven single-valued key changes the command by exactly its option pair. *)
From QV Require Import Model.Base Generated.Tables Model.Quote Model.Unquote Model.Split Model.PortRange Model.Unit Model.Lex Model.Parser
  Model.Path Model.Names Model.Convert Model.Process Spec.Passthrough Proofs.Util Proofs.C15 Proofs.C07 Proofs.C02 Proofs.C08 Proofs.C07run Proofs.C09 Proofs.C09run Proofs.C08run.
Open Scope N_scope.
Local Notation L := s2l (only parsing).

(* ---- look-ups that do not concern the added entry ---- *)
Section AddOther.
Variables (u : unit) (sec0 k0 raw : str).
Notation u' := (add_entry u sec0 k0 raw).

Lemma values_raw_add_any sec k : sec <> sec0 \/ k <> k0 -> values_raw u' sec k = values_raw u sec k.
Proof.
  intros H. pose proof (vals_add_entry u sec0 k0 raw sec k) as E. unfold vals in E. rewrite E.
  destruct (str_eqb_spec sec sec0) as [->|]; [|rewrite app_nil_r; reflexivity]. destruct (str_eqb_spec k0 k) as [->|]; [|rewrite app_nil_r; reflexivity].
  destruct H; congruence.
Qed.

Lemma lk_add_any {E} sec k : sec <> sec0 \/ k <> k0 -> @lk E u' sec k = @lk E u sec k.
Proof. intros H. unfold lk, lookup_last, lookup_last_value. rewrite values_raw_add_any by exact H. reflexivity. Qed.
Lemma lk_all_add_any {E} sec k : sec <> sec0 \/ k <> k0 -> @lk_all E u' sec k = @lk_all E u sec k.
Proof. intros H. unfold lk_all, lookup_all, lookup_all_values. rewrite values_raw_add_any by exact H. reflexivity. Qed.
Lemma lookup_bool_add_any sec k : sec <> sec0 \/ k <> k0 -> lookup_bool u' sec k = lookup_bool u sec k.
Proof. intros H. unfold lookup_bool, lookup_last_value. rewrite values_raw_add_any by exact H. reflexivity. Qed.
Lemma lookup_last_value_add_any sec k : sec <> sec0 \/ k <> k0 -> lookup_last_value u' sec k = lookup_last_value u sec k.
Proof. intros H. unfold lookup_last_value. rewrite values_raw_add_any by exact H. reflexivity. Qed.
Lemma lookup_all_strv_add_any sec k : sec <> sec0 \/ k <> k0 -> lookup_all_strv u' sec k = lookup_all_strv u sec k.
Proof. intros H. unfold lookup_all_strv, lookup_all_values. rewrite values_raw_add_any by exact H. reflexivity. Qed.
Lemma lookup_all_args_add_any sec k : sec <> sec0 \/ k <> k0 -> lookup_all_args u' sec k = lookup_all_args u sec k.
Proof. intros H. unfold lookup_all_args, lookup_all_values. rewrite values_raw_add_any by exact H. reflexivity. Qed.
Lemma lookup_all_key_val_add_any sec k : sec <> sec0 \/ k <> k0 -> lookup_all_key_val u' sec k = lookup_all_key_val u sec k.
Proof. intros H. unfold lookup_all_key_val. rewrite lookup_all_args_add_any by exact H. reflexivity. Qed.
End AddOther.

(* every key the container converter reads outside its three option tables (single string / one per assignment / boolean) *)
Definition COMMON : list str :=
  [s2l "AddCapability"; s2l "AddDevice"; s2l "Annotation"; s2l "AutoUpdate"; s2l "CgroupsMode"; s2l "ContainerName"; s2l "ContainersConfModule"; s2l "DefaultDependencies"; s2l "DropCapability"; s2l "Environment"; s2l "EnvironmentFile"; s2l "Exec"; s2l "ExposeHostPort"; s2l "GIDMap"; s2l "GlobalArgs"; s2l "Group"; s2l "Image"; s2l "Label"; s2l "LogDriver"; s2l "LogOpt"; s2l "Mask"; s2l "Mount"; s2l "Network"; s2l "NoNewPrivileges"; s2l "Notify"; s2l "Pod"; s2l "PodmanArgs"; s2l "ReadOnly"; s2l "RemapGid"; s2l "RemapUid"; s2l "RemapUidSize"; s2l "RemapUsers"; s2l "Rootfs"; s2l "SeccompProfile"; s2l "Secret"; s2l "SecurityLabelDisable"; s2l "SecurityLabelFileType"; s2l "SecurityLabelLevel"; s2l "SecurityLabelNested"; s2l "SecurityLabelType"; s2l "StartWithPod"; s2l "SubGIDMap"; s2l "SubUIDMap"; s2l "Sysctl"; s2l "UIDMap"; s2l "Unmask"; s2l "User"; s2l "UserNS"; s2l "VolatileTmp"; s2l "Volume"; s2l "HealthCmd"; s2l "HealthInterval"; s2l "HealthOnFailure"; s2l "HealthRetries"; s2l "HealthStartPeriod"; s2l "HealthTimeout"; s2l "HealthStartupCmd"; s2l "HealthStartupInterval"; s2l "HealthStartupRetries"; s2l "HealthStartupSuccess"; s2l "HealthStartupTimeout"; s2l "PublishPort"].
Definition KS : list str := map fst pt_from_container_unit_string_keys.
Definition KA : list str := map fst pt_from_container_unit_all_string_keys.
Definition KB : list str := map fst pt_from_container_unit_bool_keys.

Lemma in_of_mem k l : mem_str k l = true -> In k l.
Proof. unfold mem_str. intros H. apply existsb_exists in H. destruct H as [x [Hx He]]. destruct (str_eqb_spec k x); [subst; exact Hx|discriminate]. Qed.
Ltac in_common := apply in_of_mem; vm_compute; reflexivity.

Section Same.
Variables (u : unit) (k0 raw : str) (OT : list str).
Hypothesis Hc : incl COMMON OT.
Hypothesis HK : ~ In k0 OT.
Notation sec0 := c_CONTAINER_SECTION.
Notation u' := (add_entry u sec0 k0 raw).

Ltac side := first [ left; discriminate | right; let X := fresh in intros X; apply HK; rewrite <- X; apply Hc; in_common ].
Ltac rw_same :=
  repeat first [ rewrite (lk_add_any u sec0 k0 raw) by side | rewrite (lk_all_add_any u sec0 k0 raw) by side
               | rewrite (lookup_bool_add_any u sec0 k0 raw) by side | rewrite (lookup_last_value_add_any u sec0 k0 raw) by side
               | rewrite (lookup_all_strv_add_any u sec0 k0 raw) by side | rewrite (lookup_all_args_add_any u sec0 k0 raw) by side
               | rewrite (lookup_all_key_val_add_any u sec0 k0 raw) by side ].

Lemma add_strings_same sec keys : Forall (fun p => sec <> sec0 \/ fst p <> k0) keys -> forall args, add_strings u' sec keys args = add_strings u sec keys args.
Proof.
  induction 1 as [|[k f] r Hk Hr IH]; intros args; cbn [add_strings]; [reflexivity|]. cbn [fst] in Hk.
  rewrite (lk_add_any u sec0 k0 raw) by exact Hk. destruct (lk u sec k) as [v| | |]; cbn [bind]; try reflexivity. apply IH.
Qed.
Lemma add_all_strings_same sec keys : Forall (fun p => sec <> sec0 \/ fst p <> k0) keys -> forall args, add_all_strings u' sec keys args = add_all_strings u sec keys args.
Proof.
  induction 1 as [|[k f] r Hk Hr IH]; intros args; cbn [add_all_strings]; [reflexivity|]. cbn [fst] in Hk.
  rewrite (lk_all_add_any u sec0 k0 raw) by exact Hk. destruct (lk_all u sec k) as [v| | |]; cbn [bind]; try reflexivity. apply IH.
Qed.
Lemma add_bools_same sec keys : Forall (fun p => sec <> sec0 \/ fst p <> k0) keys -> forall args, add_bools u' sec keys args = add_bools u sec keys args.
Proof.
  induction 1 as [|[k f] r Hk Hr IH]; intros args; cbn [add_bools]; [reflexivity|]. cbn [fst] in Hk.
  rewrite (lookup_bool_add_any u sec0 k0 raw) by exact Hk. apply IH.
Qed.

Ltac keys_other := repeat (constructor; [cbn [fst]; side|]); constructor.

Lemma base_same podman : base_command podman u' sec0 = base_command podman u sec0.
Proof. unfold base_command. rw_same. reflexivity. Qed.
Lemma health_same args : handle_health u' sec0 args = handle_health u sec0 args.
Proof. unfold handle_health. apply add_strings_same. unfold pt_handle_health_key_arg_map. cbn [map]. keys_other. Qed.
Lemma log_driver_same args : handle_log_driver u' sec0 args = handle_log_driver u sec0 args.
Proof. unfold handle_log_driver. rw_same. reflexivity. Qed.
Lemma log_opt_same args : handle_log_opt u' sec0 args = handle_log_opt u sec0 args.
Proof. unfold handle_log_opt. rw_same. reflexivity. Qed.
Lemma networks_same svc tbl args : handle_networks u' sec0 svc tbl args = handle_networks u sec0 svc tbl args.
Proof. unfold handle_networks. rw_same. reflexivity. Qed.
Lemma user_same args : handle_user u' sec0 args = handle_user u sec0 args.
Proof. unfold handle_user. rw_same. reflexivity. Qed.
Lemma user_remap_same args sm : handle_user_remap u' sec0 args sm = handle_user_remap u sec0 args sm.
Proof. unfold handle_user_remap. rw_same. reflexivity. Qed.
Lemma user_mappings_same args sm : handle_user_mappings u' sec0 args sm = handle_user_mappings u sec0 args sm.
Proof.
  unfold handle_user_mappings. rw_same. destruct (lk u sec0 (L "UserNS")) as [userns| | |]; cbn [bind]; try reflexivity.
  destruct (match userns with Some (c :: s) => _ | _ => _ end) as [a1 d1]. cbv zeta.
  destruct (lk u sec0 (L "SubUIDMap")) as [subu| | |]; cbn [bind]; try reflexivity.
  destruct (match subu with Some (c :: s) => _ | _ => _ end) as [a3 d3].
  destruct (lk u sec0 (L "SubGIDMap")) as [subg| | |]; cbn [bind]; try reflexivity.
  destruct (match subg with Some (c :: s) => _ | _ => _ end) as [a4 d4].
  destruct d4; [reflexivity|apply user_remap_same].
Qed.
Lemma volumes_same pinned path svc tbl args : handle_volumes pinned u' path sec0 svc tbl args = handle_volumes pinned u path sec0 svc tbl args.
Proof. unfold handle_volumes. rw_same. reflexivity. Qed.
Lemma pod_same svc sp tbl args : handle_pod u' sec0 svc sp tbl args = handle_pod u sec0 svc sp tbl args.
Proof. unfold handle_pod. rw_same. reflexivity. Qed.
Lemma podman_args_same args : handle_podman_args u' sec0 args = handle_podman_args u sec0 args.
Proof. unfold handle_podman_args. rw_same. reflexivity. Qed.
Lemma container_name_same {E} path : @container_name E u' path = @container_name E u path.
Proof. unfold container_name. rw_same. reflexivity. Qed.

End Same.

(* ---- handlers only append to the command, and what they append does not depend on what is already there ---- *)
Definition Rel (a1 b1 a2 b2 : list str) : Prop := exists d, b1 = a1 ++ d /\ b2 = a2 ++ d.

Lemma Rel_refl a1 a2 : Rel a1 a1 a2 a2.
Proof. exists []. rewrite !app_nil_r. split; reflexivity. Qed.
Lemma Rel_app a1 a2 d : Rel a1 (a1 ++ d) a2 (a2 ++ d).
Proof. exists d. split; reflexivity. Qed.
Lemma Rel_trans a1 b1 c1 a2 b2 c2 : Rel a1 b1 a2 b2 -> Rel b1 c1 b2 c2 -> Rel a1 c1 a2 c2.
Proof. intros [d [-> ->]] [e [-> ->]]. exists (d ++ e). rewrite !app_assoc. split; reflexivity. Qed.

Ltac rel_solve := subst; repeat (match goal with |- Rel _ (match ?x with _ => _ end) _ _ => destruct x end); rewrite <- ?app_assoc; first [apply Rel_refl | apply Rel_app].
Ltac rel_step :=
  match goal with
  | H1 : COk _ = COk _ |- _ => injection H1; clear H1; intros
  | H1 : bind ?m _ = COk _, H2 : bind ?m _ = COk _ |- _ => destruct m; cbn [bind] in H1, H2; try discriminate
  | H1 : (match ?x with _ => _ end) = COk _ |- _ => destruct x; try discriminate
  | H1 : (if ?b then _ else _) = COk _ |- _ => destruct b; try discriminate
  end.


Section RelHandlers.
Variable u : unit.

Lemma log_driver_rel sec a1 b1 a2 b2 : handle_log_driver u sec a1 = COk b1 -> handle_log_driver u sec a2 = COk b2 -> Rel a1 b1 a2 b2.
Proof.
  unfold handle_log_driver. destruct (lk u sec (L "LogDriver")) as [v| | |]; cbn [bind]; try discriminate.
  intros H1 H2. injection H1 as <-. injection H2 as <-. destruct v; [apply Rel_app|apply Rel_refl].
Qed.

Lemma add_strings_rel sec keys : forall a1 b1 a2 b2, add_strings u sec keys a1 = COk b1 -> add_strings u sec keys a2 = COk b2 -> Rel a1 b1 a2 b2.
Proof.
  induction keys as [|[k f] r IH]; intros a1 b1 a2 b2; cbn [add_strings].
  - intros H1 H2. injection H1 as <-. injection H2 as <-. apply Rel_refl.
  - destruct (lk u sec k) as [v| | |]; cbn [bind]; try discriminate. intros H1 H2.
    destruct v as [[|c s]|]; try (eapply IH; eassumption).
    eapply Rel_trans; [apply Rel_app|eapply IH; eassumption].
Qed.

Lemma add_all_strings_rel sec keys : forall a1 b1 a2 b2, add_all_strings u sec keys a1 = COk b1 -> add_all_strings u sec keys a2 = COk b2 -> Rel a1 b1 a2 b2.
Proof.
  induction keys as [|[k f] r IH]; intros a1 b1 a2 b2; cbn [add_all_strings].
  - intros H1 H2. injection H1 as <-. injection H2 as <-. apply Rel_refl.
  - destruct (lk_all u sec k) as [v| | |]; cbn [bind]; try discriminate. intros H1 H2.
    eapply Rel_trans; [apply Rel_app|eapply IH; eassumption].
Qed.

Lemma add_bools_rel sec keys : forall a1 a2, Rel a1 (add_bools u sec keys a1) a2 (add_bools u sec keys a2).
Proof.
  induction keys as [|[k f] r IH]; intros a1 a2; cbn [add_bools]; [apply Rel_refl|].
  destruct (lookup_bool u sec k) as [b|]; [|apply IH]. eapply Rel_trans; [|apply IH]. unfold add_bool. destruct b; apply Rel_app.
Qed.

Lemma user_rel sec a1 b1 a2 b2 : handle_user u sec a1 = COk b1 -> handle_user u sec a2 = COk b2 -> Rel a1 b1 a2 b2.
Proof.
  unfold handle_user. destruct (lk u sec (L "User")) as [us| | |]; cbn [bind]; try discriminate.
  destruct (lk u sec (L "Group")) as [gr| | |]; cbn [bind]; try discriminate.
  destruct us as [[|c s]|], gr as [[|d g]|]; try discriminate; intros H1 H2; injection H1 as <-; injection H2 as <-; first [apply Rel_refl|apply Rel_app].
Qed.

Lemma user_remap_rel sec sm a1 b1 a2 b2 : handle_user_remap u sec a1 sm = COk b1 -> handle_user_remap u sec a2 sm = COk b2 -> Rel a1 b1 a2 b2.
Proof. unfold handle_user_remap. cbv zeta. intros H1 H2. repeat rel_step; rel_solve. Qed.

Lemma user_mappings_rel sec sm a1 b1 a2 b2 : handle_user_mappings u sec a1 sm = COk b1 -> handle_user_mappings u sec a2 sm = COk b2 -> Rel a1 b1 a2 b2.
Proof.
  unfold handle_user_mappings. intros H1 H2.
  destruct (lk u sec (L "UserNS")) as [userns| | |]; cbn [bind] in H1, H2; try discriminate.
  set (uidm := lookup_all_strv u sec (L "UIDMap")) in *. set (gidm := lookup_all_strv u sec (L "GIDMap")) in *.
  destruct (lk u sec (L "SubUIDMap")) as [subu| | |]; cbn [bind] in H1, H2; try discriminate.
  destruct (lk u sec (L "SubGIDMap")) as [subg| | |]; cbn [bind] in H1, H2; try discriminate.
  destruct userns as [[|c s]|], subu as [[|c2 s2]|], subg as [[|c3 s3]|]; cbv beta iota zeta in H1, H2.
  all: try match type of H1 with (if ?b then _ else _) = _ => destruct b end.
  all: try (repeat rel_step; rel_solve).
  all: eapply Rel_trans; [|eapply user_remap_rel; eassumption]; rel_solve.
Qed.

Lemma expose_rel ports : forall a1 b1 a2 b2, expose_loop ports a1 = COk b1 -> expose_loop ports a2 = COk b2 -> Rel a1 b1 a2 b2.
Proof.
  induction ports as [|p r IH]; intros a1 b1 a2 b2; cbn [expose_loop].
  - intros H1 H2. injection H1 as <-. injection H2 as <-. apply Rel_refl.
  - cbv zeta. destruct (is_port_range (trim p)); [|discriminate]. intros H1 H2. eapply Rel_trans; [apply Rel_app|eapply IH; eassumption].
Qed.

Lemma networks_loop_rel tbl nets : forall s1 s2 a1 b1 a2 b2 t1 t2,
  networks_loop nets s1 tbl a1 = COk (b1, t1) -> networks_loop nets s2 tbl a2 = COk (b2, t2) -> Rel a1 b1 a2 b2.
Proof.
  induction nets as [|net r IH]; intros s1 s2 a1 b1 a2 b2 t1 t2; cbn [networks_loop].
  - intros H1 H2. injection H1 as <- _. injection H2 as <- _. apply Rel_refl.
  - destruct net as [|c0 net0]; [apply IH|].
    destruct (match split_once cCOLON (c0 :: net0) with Some (a, b) => (a, Some b) | None => (c0 :: net0, None) end) as [name opts]. cbv zeta.
    intros H1 H2. apply bind_ok in H1, H2. destruct H1 as [[rn1 s1'] [E1 H1]]. destruct H2 as [[rn2 s2'] [E2 H2]].
    assert (rn1 = rn2).
    { destruct (_ || _) in E1, E2.
      - destruct (tbl_get tbl name); [|discriminate]. destruct (i_resource_name i); [discriminate|]. injection E1 as <- _. injection E2 as <- _. reflexivity.
      - injection E1 as <- _. injection E2 as <- _. reflexivity. }
    subst rn2. destruct opts.
    + destruct (ends_with (L ".container") name); [discriminate|]. eapply Rel_trans; [apply Rel_app|eapply IH; eassumption].
    + eapply Rel_trans; [apply Rel_app|eapply IH; eassumption].
Qed.

Lemma networks_rel sec tbl s1 s2 a1 b1 a2 b2 t1 t2 :
  handle_networks u sec s1 tbl a1 = COk (b1, t1) -> handle_networks u sec s2 tbl a2 = COk (b2, t2) -> Rel a1 b1 a2 b2.
Proof. unfold handle_networks. destruct (lk_all u sec (L "Network")); cbn [bind]; try discriminate. apply networks_loop_rel. Qed.

Lemma storage_source_rel up tbl src ci s1 s2 r1 r2 t1 t2 :
  handle_storage_source up s1 src tbl ci = COk (r1, t1) -> handle_storage_source up s2 src tbl ci = COk (r2, t2) -> r1 = r2.
Proof.
  unfold handle_storage_source. destruct (if starts_with [cDOT] src then abs_from_unit src up else COk src) as [x| | |]; cbn [bind]; try discriminate.
  destruct (starts_with [cSLASH] x); [intros H1 H2; injection H1 as <- _; injection H2 as <- _; reflexivity|].
  destruct (_ || _); [destruct (tbl_get tbl x); [|discriminate]|]; intros H1 H2; injection H1 as <- _; injection H2 as <- _; reflexivity.
Qed.

Lemma volumes_loop_rel pinned up tbl vols : forall s1 s2 a1 b1 a2 b2 t1 t2,
  volumes_loop pinned up vols s1 tbl a1 = COk (b1, t1) -> volumes_loop pinned up vols s2 tbl a2 = COk (b2, t2) -> Rel a1 b1 a2 b2.
Proof.
  induction vols as [|v r IH]; intros s1 s2 a1 b1 a2 b2 t1 t2; cbn [volumes_loop].
  - intros H1 H2. injection H1 as <- _. injection H2 as <- _. apply Rel_refl.
  - lazymatch goal with |- (match ?e with pair _ _ => _ end) = _ -> _ => destruct e as [[source dest] options] end.
    destruct source as [|c s].
    + intros H1 H2. eapply Rel_trans; [apply Rel_app|eapply IH; eassumption].
    + intros H1 H2. apply bind_ok in H1, H2. destruct H1 as [[src1 s1'] [E1 H1]]. destruct H2 as [[src2 s2'] [E2 H2]].
      pose proof (storage_source_rel _ _ _ _ _ _ _ _ _ _ E1 E2) as ->. eapply Rel_trans; [apply Rel_app|eapply IH; eassumption].
Qed.

Lemma volumes_rel pinned up sec tbl s1 s2 a1 b1 a2 b2 t1 t2 :
  handle_volumes pinned u up sec s1 tbl a1 = COk (b1, t1) -> handle_volumes pinned u up sec s2 tbl a2 = COk (b2, t2) -> Rel a1 b1 a2 b2.
Proof. unfold handle_volumes. destruct (lk_all u sec (L "Volume")); cbn [bind]; try discriminate. apply volumes_loop_rel. Qed.

Lemma mount_tokens_rel up tbl tokens : forall s1 s2 acc o1 o2 t1 t2,
  mount_tokens up tokens s1 tbl acc = COk (o1, t1) -> mount_tokens up tokens s2 tbl acc = COk (o2, t2) -> o1 = o2.
Proof.
  induction tokens as [|t r IH]; intros s1 s2 acc o1 o2 t1 t2; cbn [mount_tokens].
  - intros H1 H2. injection H1 as <- _. injection H2 as <- _. reflexivity.
  - destruct (_ || _); [|apply IH]. destruct (split_once cEQ t) as [[a v]|]; [|discriminate].
    intros H1 H2. apply bind_ok in H1, H2. destruct H1 as [[src1 s1'] [E1 H1]]. destruct H2 as [[src2 s2'] [E2 H2]].
    pose proof (storage_source_rel _ _ _ _ _ _ _ _ _ _ E1 E2) as ->. eapply IH; eassumption.
Qed.

Lemma resolve_mount_rel nl up m tbl s1 s2 r1 r2 t1 t2 :
  resolve_mount nl up m s1 tbl = COk (r1, t1) -> resolve_mount nl up m s2 tbl = COk (r2, t2) -> r1 = r2.
Proof.
  unfold resolve_mount. destruct (negb (csv_plain m)); [discriminate|]. destruct m as [|c m']; [discriminate|].
  destruct (find_type _ None []) as [[ty|] tokens]; [|discriminate]. destruct (negb _).
  - intros H1 H2. injection H1 as <- _. injection H2 as <- _. reflexivity.
  - intros H1 H2. apply bind_ok in H1, H2. destruct H1 as [[o1 s1'] [E1 H1]]. destruct H2 as [[o2 s2'] [E2 H2]].
    pose proof (mount_tokens_rel _ _ _ _ _ _ _ _ _ _ E1 E2) as ->. destruct (existsb _ o2); [discriminate|].
    injection H1 as <- _. injection H2 as <- _. reflexivity.
Qed.

Lemma mounts_loop_rel nl up tbl ms : forall s1 s2 a1 b1 a2 b2 t1 t2,
  mounts_loop nl up ms s1 tbl a1 = COk (b1, t1) -> mounts_loop nl up ms s2 tbl a2 = COk (b2, t2) -> Rel a1 b1 a2 b2.
Proof.
  induction ms as [|m r IH]; intros s1 s2 a1 b1 a2 b2 t1 t2; cbn [mounts_loop].
  - intros H1 H2. injection H1 as <- _. injection H2 as <- _. apply Rel_refl.
  - intros H1 H2. apply bind_ok in H1, H2. destruct H1 as [[r1 s1'] [E1 H1]]. destruct H2 as [[r2 s2'] [E2 H2]].
    pose proof (resolve_mount_rel _ _ _ _ _ _ _ _ _ _ E1 E2) as ->. eapply Rel_trans; [apply Rel_app|eapply IH; eassumption].
Qed.

Lemma pod_rel sec tbl sp s1 s2 a1 b1 a2 b2 t1 t2 x1 x2 :
  handle_pod u sec s1 sp tbl a1 = COk (b1, t1, x1) -> handle_pod u sec s2 sp tbl a2 = COk (b2, t2, x2) -> Rel a1 b1 a2 b2 /\ x1 = x2.
Proof.
  unfold handle_pod. destruct (lk u sec (L "Pod")) as [[[|c p]|]| | |]; cbn [bind]; try discriminate.
  - intros H1 H2. injection H1 as <- _ <-. injection H2 as <- _ <-. split; [apply Rel_refl|reflexivity].
  - destruct (negb _); [discriminate|]. destruct (tbl_get tbl (c :: p)); [|discriminate].
    intros H1 H2. injection H1 as <- _ <-. injection H2 as <- _ <-. split; [apply Rel_app|reflexivity].
  - intros H1 H2. injection H1 as <- _ <-. injection H2 as <- _ <-. split; [apply Rel_refl|reflexivity].
Qed.
End RelHandlers.

Lemma add_strings_no_panic u sec keys : forall args r, add_strings u sec keys args = COk r -> no_panic u sec keys.
Proof.
  induction keys as [|[k f] rest IH]; intros args r H p Hp; [destruct Hp|]. cbn [add_strings] in H.
  unfold lk in H. destruct Hp as [<-|Hp]; cbn [fst].
  - destruct (lookup_last u sec k) as [[s|]|]; cbn [bind] in H; try discriminate.
  - destruct (lookup_last u sec k) as [[s|]|]; cbn [bind] in H; try discriminate; eapply IH; eassumption.
Qed.

Lemma let_elim {A B} (e : A) (f : A -> B) (r : B) (P : Prop) : (forall x, x = e -> f x = r -> P) -> (let x := e in f x) = r -> P.
Proof. intros H Hl. exact (H e eq_refl Hl). Qed.
Ltac lel := lazymatch goal with |- (let x := ?e in @?f x) = ?r -> ?P => refine (@let_elim _ _ e f r P _); cbv beta end.

(* ---- the frame of one single-valued string key in the whole container command ---- *)
Section Frame.
Variables (podman : str) (exists_path : str -> bool) (kill_fixed mount_nl : bool).
Variables (u : unit) (k0 raw : str) (OT : list str) (ins : list str).
Notation sec0 := c_CONTAINER_SECTION.
Notation u' := (add_entry u sec0 k0 raw).
Hypothesis Hc : incl COMMON OT.
Hypothesis HK : ~ In k0 OT.

(* the second command is the first with [ins] inserted at one place *)
Definition Ins (b1 b2 : list str) : Prop := exists p q, b1 = p ++ q /\ b2 = p ++ ins ++ q.

(* the segment that holds the three option tables: proved per table kind below *)
Hypothesis Hhead : forall base cname s1 s2 b1 b2 t1 t2,
  ct_run_head u base cname s1 = COk (b1, t1) -> ct_run_head u' base cname s2 = COk (b2, t2) -> Ins b1 b2.

Lemma Ins_Rel b1 b2 c1 c2 : Ins b1 b2 -> Rel b1 c1 b2 c2 -> Ins c1 c2.
Proof. intros (p & q & -> & ->) (d & -> & ->). exists p, (q ++ d). rewrite <- !app_assoc. split; reflexivity. Qed.

Ltac side := first [ left; discriminate | right; let X := fresh in intros X; apply HK; rewrite <- X; apply Hc; in_common ].

Lemma devices_rel devs : forall a1 a2, Rel a1 (devices_loop exists_path devs a1) a2 (devices_loop exists_path devs a2).
Proof.
  induction devs as [|d r IH]; intros a1 a2; cbn [devices_loop]; [apply Rel_refl|].
  destruct d as [|c0 d']; [eapply Rel_trans; [apply Rel_app|apply IH]|].
  destruct (c0 =? cDASH); [|eapply Rel_trans; [apply Rel_app|apply IH]].
  destruct (exists_path _); [eapply Rel_trans; [apply Rel_app|apply IH]|apply IH].
Qed.

Ltac rw_in H :=
  repeat first [ rewrite (lk_add_any u sec0 k0 raw) in H by side | rewrite (lk_all_add_any u sec0 k0 raw) in H by side
               | rewrite (lookup_bool_add_any u sec0 k0 raw) in H by side | rewrite (lookup_last_value_add_any u sec0 k0 raw) in H by side
               | rewrite (lookup_all_strv_add_any u sec0 k0 raw) in H by side | rewrite (lookup_all_args_add_any u sec0 k0 raw) in H by side
               | rewrite (lookup_all_key_val_add_any u sec0 k0 raw) in H by side ].
(* one layer: x = F p, x' = F p' with the same F *)
Ltac rl E E' := rw_in E'; rewrite E, E'; unfold add_bool, add_keys;
  repeat (match goal with |- context [if ?b then _ else _] => destruct b | |- context [match ?x with _ => _ end] => destruct x end);
  unfold add_bool, add_keys; first [apply Rel_refl | apply Rel_app | (rewrite <- ?app_assoc; first [apply Rel_refl | apply Rel_app])].
(* the same look-up in both runs gives the same result *)
Ltac same_lk H H' := rw_in H'; rewrite H in H'; injection H' as <-.

Lemma ct_security_rel a1 b1 a2 b2 :
  ct_security exists_path u a1 = COk b1 -> ct_security exists_path u' a2 = COk b2 -> Rel a1 b1 a2 b2.
Proof.
  cbv beta delta [ct_security]. intros R1 R2. revert R1.
  lel; intros sec Hsec; subst sec. lel; intros bof Hbof. lel; intros x1 E1. lel; intros x2 E2. lel; intros x3 E3. bel; intros slt Hslt. lel; intros x4 E4.
  bel; intros slf Hslf. lel; intros x5 E5. bel; intros sll Hsll. lel; intros x6 E6. lel; intros x7 E7. bel; intros secc Hsecc.
  lel; intros x8 E8. lel; intros x9 E9. lel; intros x10 E10. lel; intros x11 E11. lel; intros ro Hro. lel; intros x12 E12. lel; intros x13 E13.
  bel; intros x14 H14. bel; intros x15 H15. intros Ef. injection Ef as <-.
  revert R2.
  lel; intros sec Hsec; subst sec. lel; intros bof' Hbof'. lel; intros y1 F1. lel; intros y2 F2. lel; intros y3 F3. bel; intros slt' Hslt'. lel; intros y4 F4.
  bel; intros slf' Hslf'. lel; intros y5 F5. bel; intros sll' Hsll'. lel; intros y6 F6. lel; intros y7 F7. bel; intros secc' Hsecc'.
  lel; intros y8 F8. lel; intros y9 F9. lel; intros y10 F10. lel; intros y11 F11. lel; intros ro' Hro'. lel; intros y12 F12. lel; intros y13 F13.
  bel; intros y14 G14. bel; intros y15 G15. intros Ef. injection Ef as <-.
  subst bof bof'. cbv beta in E1, E2, E3, E13, F1, F2, F3, F13.
  same_lk Hslt Hslt'. same_lk Hslf Hslf'. same_lk Hsll Hsll'. same_lk Hsecc Hsecc'.
  rw_in Hro'. subst ro ro'.
  assert (R1 : Rel a1 x1 a2 y1) by (rl E1 F1).
  assert (R2 : Rel x1 x2 y1 y2) by (rl E2 F2).
  assert (R3 : Rel x2 x3 y2 y3) by (rl E3 F3).
  assert (R4 : Rel x3 x4 y3 y4) by (rl E4 F4).
  assert (R5 : Rel x4 x5 y4 y5) by (rl E5 F5).
  assert (R6 : Rel x5 x6 y5 y6) by (rl E6 F6).
  assert (R7 : Rel x6 x7 y6 y7) by (rw_in F7; rewrite E7, F7; apply devices_rel).
  assert (R8 : Rel x7 x8 y7 y8) by (rl E8 F8).
  assert (R9 : Rel x8 x9 y8 y9) by (rl E9 F9).
  assert (R10 : Rel x9 x10 y9 y10) by (rl E10 F10).
  assert (R11 : Rel x10 x11 y10 y11) by (rl E11 F11).
  assert (R12 : Rel x11 x12 y11 y12) by (rl E12 F12).
  assert (R13 : Rel x12 x13 y12 y13) by (rl E13 F13).
  rewrite (user_same u k0 raw OT Hc HK) in G14. rewrite (user_mappings_same u k0 raw OT Hc HK) in G15.
  pose proof (user_rel _ _ _ _ _ _ H14 G14) as R14. pose proof (user_mappings_rel _ _ _ _ _ _ _ H15 G15) as R15.
  repeat (eapply Rel_trans; [eassumption|]). apply Rel_refl.
Qed.

Lemma envfiles_same path :
  (fix go (l : list str) : bres (list str) := match l with [] => COk [] | f :: r => do a <- abs_from_unit f path; do rest <- go r; COk (a :: rest) end)
    (lookup_all_args u' sec0 (L "EnvironmentFile")) =
  (fix go (l : list str) : bres (list str) := match l with [] => COk [] | f :: r => do a <- abs_from_unit f path; do rest <- go r; COk (a :: rest) end)
    (lookup_all_args u sec0 (L "EnvironmentFile")).
Proof. rewrite (lookup_all_args_add_any u sec0 k0 raw) by side. reflexivity. Qed.

Lemma ct_labels_ports_rel path penv a1 b1 a2 b2 :
  ct_labels_ports u path penv a1 = COk b1 -> ct_labels_ports u' path penv a2 = COk b2 -> Rel a1 b1 a2 b2.
Proof.
  cbv beta delta [ct_labels_ports]. intros R1 R2. revert R1.
  lel; intros sec Hsec; subst sec. bel; intros au Hau. lel; intros x1 E1. bel; intros ports Hports. bel; intros x2 H2. bel; intros x3 H3.
  lel; intros x4 E4. lel; intros x5 E5. lel; intros x6 E6. lel; intros x7 E7. lel; intros x8 E8. bel; intros ef Hef. lel; intros x9 E9. lel; intros x10 E10.
  intros Ef. injection Ef as <-.
  revert R2.
  lel; intros sec Hsec; subst sec. bel; intros au' Hau'. lel; intros y1 F1. bel; intros ports' Hports'. bel; intros y2 G2. bel; intros y3 G3.
  lel; intros y4 F4. lel; intros y5 F5. lel; intros y6 F6. lel; intros y7 F7. lel; intros y8 F8. bel; intros ef' Hef'. lel; intros y9 F9. lel; intros y10 F10.
  intros Ef. injection Ef as <-.
  same_lk Hau Hau'. same_lk Hports Hports'. rewrite envfiles_same in Hef'. rewrite Hef in Hef'. injection Hef' as <-.
  assert (R1 : Rel a1 x1 a2 y1) by (rl E1 F1).
  pose proof (expose_rel _ _ _ _ _ H2 G2) as R2.
  rewrite (add_all_strings_same u k0 raw) in G3 by (unfold pt_handle_publish_ports_inline0; repeat (constructor; [cbn [fst]; side|]); constructor).
  pose proof (add_all_strings_rel _ _ _ _ _ _ _ H3 G3) as R3.
  assert (R4 : Rel x3 x4 y3 y4) by (rl E4 F4).
  assert (R5 : Rel x4 x5 y4 y5) by (rl E5 F5).
  assert (R6 : Rel x5 x6 y5 y6) by (rl E6 F6).
  assert (R7 : Rel x6 x7 y6 y7) by (rl E7 F7).
  assert (R8 : Rel x7 x8 y7 y8) by (rl E8 F8).
  assert (R9 : Rel x8 x9 y8 y9) by (rl E9 F9).
  assert (R10 : Rel x9 x10 y9 y10) by (rl E10 F10).
  repeat (eapply Rel_trans; [eassumption|]). apply Rel_refl.
Qed.

Lemma ct_net_notify_rel tbl s1 s2 a1 b1 a2 b2 t1 t2 :
  ct_net_notify u tbl a1 s1 = COk (b1, t1) -> ct_net_notify u' tbl a2 s2 = COk (b2, t2) -> Rel a1 b1 a2 b2.
Proof.
  cbv beta delta [ct_net_notify]. intros R1 R2. revert R1.
  lel; intros sec Hsec; subst sec. bel; intros [x1 s1'] H1. bel; intros stype Hst. bel; intros [x2 s2'] H2. bel; intros sysl Hsy. lel; intros svcf Hsf. intros Ef.
  revert R2.
  lel; intros sec Hsec; subst sec. bel; intros [y1 q1] G1. bel; intros stype' Hst'. bel; intros [y2 q2] G2. bel; intros sysl' Hsy'. lel; intros svcf' Hsf'. intros Ef'.
  assert (b1 = x2) by congruence. assert (b2 = y2) by congruence. subst b1 b2.
  same_lk Hst Hst'.
  rewrite (networks_same u k0 raw OT Hc HK) in G1. pose proof (networks_rel _ _ _ _ _ _ _ _ _ _ _ H1 G1) as R1.
  eapply Rel_trans; [exact R1|].
  assert (N : forall (A B : list str) (sv sv' : unit) (r r' : list str) (w w' : unit), 
    (do nt <- @lk berr u sec0 (L "Notify");
     (let a := match nt with
               | Some n => if str_eqb n (L "healthy") then A ++ [L "--sdnotify=healthy"]
                           else if match lookup_bool u sec0 (L "Notify") with Some b => b | None => false end then A ++ [L "--sdnotify=container"] else A ++ [L "--sdnotify=conmon"]
               | None => A ++ [L "--sdnotify=conmon"] end in COk (a ++ [L "-d"], sv))) = COk (r, w) ->
    (do nt <- @lk berr u sec0 (L "Notify");
     (let a := match nt with
               | Some n => if str_eqb n (L "healthy") then B ++ [L "--sdnotify=healthy"]
                           else if match lookup_bool u sec0 (L "Notify") with Some b => b | None => false end then B ++ [L "--sdnotify=container"] else B ++ [L "--sdnotify=conmon"]
               | None => B ++ [L "--sdnotify=conmon"] end in COk (a ++ [L "-d"], sv'))) = COk (r', w') -> Rel A r B r').
  { intros A B sv sv' r r' w w'. destruct (@lk berr u sec0 (L "Notify")) as [nt| | |]; cbn [bind]; try discriminate. cbv zeta.
    intros X Y. injection X as <- _. injection Y as <- _.
    destruct nt as [n|]; [destruct (str_eqb n (L "healthy")); [|destruct (match lookup_bool u sec0 (L "Notify") with Some b => b | None => false end)]|]; rel_solve. }
  rw_in G2. cbv zeta in H2, G2.
  destruct stype as [ty|].
  - destruct (str_eqb ty (L "oneshot")); [injection H2 as <- _; injection G2 as <- _; apply Rel_refl|].
    destruct (str_eqb ty (L "notify")); [|discriminate]. eapply N; eassumption.
  - eapply N; eassumption.
Qed.

Lemma ct_service_same path svc : ct_service podman kill_fixed u' path svc = ct_service podman kill_fixed u path svc.
Proof. unfold ct_service. rewrite (container_name_same u k0 raw OT Hc HK), (base_same u k0 raw OT Hc HK). rewrite (lookup_all_key_val_add_any u sec0 k0 raw) by side. reflexivity. Qed.

Lemma ct_service_outputs path s1 s2 c1 e1 b1 t1 c2 e2 b2 t2 :
  ct_service podman kill_fixed u path s1 = COk (c1, e1, b1, t1) -> ct_service podman kill_fixed u path s2 = COk (c2, e2, b2, t2) -> c1 = c2 /\ e1 = e2 /\ b1 = b2.
Proof.
  unfold ct_service. cbv zeta. intros R1 R2. revert R1.
  bel; intros cn Hcn. bel; intros km Hkm. bel; intros sv1 Hs1. bel; intros bs Hbs. bel; intros sv2 Hs2. bel; intros sv3 Hs3. intros E. injection E as <- <- <- _.
  revert R2. rewrite Hcn. cbn [bind]. bel; intros km' Hkm'. bel; intros sv1' Hs1'. rewrite Hbs. cbn [bind]. bel; intros sv2' Hs2'. bel; intros sv3' Hs3'.
  intros E. injection E as <- <- <- _. auto.
Qed.

Lemma prologue_same path tbl i svc0 i' svc0' :
  prologue u path tbl TContainer a_SUPPORTED_CONTAINER_KEYS = COk (i, svc0) ->
  prologue u' path tbl TContainer a_SUPPORTED_CONTAINER_KEYS = COk (i', svc0') -> i' = i.
Proof.
  unfold prologue. destruct (file_name path); [|discriminate]. destruct (tbl_get tbl l); [|discriminate]. cbv zeta.
  bel; intros ? _. bel; intros ? _. bel; intros ? _. bel; intros ? _. intros E. injection E as <- _.
  bel; intros ? _. bel; intros ? _. bel; intros ? _. bel; intros ? _. intros E. injection E as <- _. reflexivity.
Qed.

(* the whole command: the two ExecStart lines differ by exactly the option pair of the added key *)
Theorem container_key_frame path tbl svc1 sp1 t1 svc2 sp2 t2 :
  from_container podman exists_path kill_fixed mount_nl u path tbl = COk (svc1, sp1, t1) ->
  from_container podman exists_path kill_fixed mount_nl u' path tbl = COk (svc2, sp2, t2) ->
  exists before1 before2 p q,
    vals svc1 SEC_S (L "ExecStart") = before1 ++ [quote_words (p ++ q)] /\
    vals svc2 SEC_S (L "ExecStart") = before2 ++ [quote_words (p ++ ins ++ q)].
Proof.
  unfold from_container. cbv zeta. intros R1 R2. revert R1.
  bel; intros [i svc0] Hp. intros R1. apply lift_ok in R1. revert R1. bel; intros image0 Hi. bel; intros rootfs0 Hr.
  revert R2. bel; intros [i' svc0'] Hp'. intros R2. apply lift_ok in R2. revert R2. bel; intros image0' Hi'. bel; intros rootfs0' Hr'.
  pose proof (prologue_same _ _ _ _ _ _ Hp Hp') as ->.
  same_lk Hi Hi'. same_lk Hr Hr'.
  set (image := match image0 with Some s => s | None => [] end). set (rootfs := match rootfs0 with Some s => s | None => [] end).
  clearbody image rootfs. intros R2 R1. revert R1 R2.
  destruct image as [|ci im], rootfs as [|d rf]; try discriminate.
  all: bel; intros [image1 s1] H1; bel; intros [[[cname penv] base] s2] H2; bel; intros [a3 s3] H3;
    bel; intros [a4 s4] H4; bel; intros a5 H5; bel; intros [a6 s6] H6; bel; intros a7 H7; bel; intros [a8 s8] H8;
    bel; intros a9 H9; bel; intros [[a10 s10] tbl10] H10; intros R1; apply with_tbl_ok in R1; revert R1;
    bel; intros s11 H11; intros E1; injection E1 as <- _ _;
    bel; intros [image1' q1] G1; bel; intros [[[cname' penv'] base'] q2] G2; bel; intros [b3 q3] G3;
    bel; intros [b4 q4] G4; bel; intros b5 G5; bel; intros [b6 q6] G6; bel; intros b7 G7; bel; intros [b8 q8] G8;
    bel; intros b9 G9; bel; intros [[b10 q10] tbl10'] G10; intros R2; apply with_tbl_ok in R2; revert R2;
    bel; intros q11 G11; intros E2; injection E2 as <- _ _.
  all: assert (image1' = image1) by
        (first [ injection H1 as <- _; injection G1 as <- _; reflexivity
               | revert H1 G1; unfold handle_image_source; destruct (_ || _); [destruct (tbl_get tbl _); [|discriminate]|];
                 intros X Y; injection X as <- _; injection Y as <- _; reflexivity ]); subst image1'.
  all: rewrite ct_service_same in G2; destruct (ct_service_outputs _ _ _ _ _ _ _ _ _ _ _ H2 G2) as (-> & -> & ->).
  all: pose proof (Hhead _ _ _ _ _ _ _ _ H3 G3) as I3.
  all: pose proof (ct_net_notify_rel _ _ _ _ _ _ _ _ _ H4 G4) as R4.
  all: pose proof (ct_security_rel _ _ _ _ H5 G5) as R5.
  all: rewrite (volumes_same u k0 raw OT Hc HK) in G6; pose proof (volumes_rel _ _ _ _ _ _ _ _ _ _ _ _ _ H6 G6) as R6.
  all: pose proof (ct_labels_ports_rel _ _ _ _ _ _ H7 G7) as R7.
  all: rewrite (lookup_all_args_add_any u sec0 k0 raw) in G8 by side; pose proof (mounts_loop_rel _ _ _ _ _ _ _ _ _ _ _ _ H8 G8) as R8.
  all: rewrite (health_same u k0 raw OT Hc HK) in G9; unfold handle_health in H9, G9; pose proof (add_strings_rel _ _ _ _ _ _ _ H9 G9) as R9.
  all: rewrite (pod_same u k0 raw OT Hc HK) in G10; assert (R10 : Rel a9 a10 b9 b10) by (eapply pod_rel; [exact H10|exact G10]).
  all: rewrite (podman_args_same u k0 raw OT Hc HK) in G11; rewrite (lookup_last_value_add_any u sec0 k0 raw) in G11 by side.
  all: rewrite (add_raw_exec_execstart _ _ _ H11), (add_raw_exec_execstart _ _ _ G11).
  all: assert (IF : Ins a10 b10) by (repeat (eapply Ins_Rel; [|eassumption]); exact I3).
  all: destruct IF as (p & q & -> & ->); unfold handle_podman_args; destruct image1;
    eexists _, _, p, _; split; f_equal; f_equal; rewrite <- ?app_assoc; reflexivity.
Qed.
End Frame.


(* ---- the head segment, for each of the three option tables ---- *)
Lemma other_of_notin k0 (keys : list (str * str)) : ~ In k0 (map fst keys) ->
  Forall (fun p => c_CONTAINER_SECTION <> c_CONTAINER_SECTION \/ fst p <> k0) keys.
Proof.
  intros H. apply Forall_forall. intros p Hp. right. intros X. apply H. rewrite <- X. apply in_map. exact Hp.
Qed.

Lemma all_strings_no_panic u sec keys : forall args r, add_all_strings u sec keys args = COk r -> no_panic_all u sec keys.
Proof.
  induction keys as [|[k f] rest IH]; intros args r H p Hp; [destruct Hp|]. cbn [add_all_strings] in H.
  unfold lk_all, of_pres in H. destruct Hp as [<-|Hp]; cbn [fst].
  - destruct (lookup_all u sec k); cbn [bind] in H; try discriminate.
  - destruct (lookup_all u sec k); cbn [bind] in H; try discriminate. eapply IH; eassumption.
Qed.

Section Heads.
Variables (u : unit) (k0 flag0 raw : str) (OT : list str) (pre post : list (str * str)).
Notation sec0 := c_CONTAINER_SECTION.
Notation u' := (add_entry u sec0 k0 raw).
Hypothesis Hc : incl COMMON OT.
Hypothesis HK : ~ In k0 OT.
Hypothesis Hfresh : values_raw u sec0 k0 = [].
Hypothesis Hraw : raw <> [].
Ltac side := first [ left; discriminate | right; let X := fresh in intros X; apply HK; rewrite <- X; apply Hc; in_common ].

(* single-valued string key *)
Lemma head_frame_string c v : pt_from_container_unit_string_keys = pre ++ (k0, flag0) :: post ->
  NoDup (map fst pt_from_container_unit_string_keys) -> unquote_value raw = Some (c :: v) ->
  ~ In k0 KA -> ~ In k0 KB ->
  forall base cname s1 s2 b1 b2 t1 t2,
  ct_run_head u base cname s1 = COk (b1, t1) -> ct_run_head u' base cname s2 = COk (b2, t2) -> Ins [flag0; c :: v] b1 b2.
Proof.
  intros Htable Hnd Huq HA HB base cname s1 s2 b1 b2 t1 t2.
  unfold ct_run_head. cbv zeta. intros R1 R2. revert R1.
  bel. intros a1 H1. bel. intros cg1 Hc1. bel. intros a2 H2. bel. intros a3 H3. intros E1.
  assert (Eb1 : b1 = add_bools u sec0 pt_from_container_unit_bool_keys a3) by congruence. clear E1. subst b1.
  revert R2. bel. intros a1' H1'. bel. intros cg1' Hc1'. bel. intros a2' H2'. bel. intros a3' H3'. intros E2.
  assert (Eb2 : b2 = add_bools u' sec0 pt_from_container_unit_bool_keys a3') by congruence. clear E2. subst b2.
  rewrite (log_driver_same u k0 raw OT Hc HK) in H1'. rewrite H1 in H1'. injection H1' as <-.
  rewrite (lk_add_any u sec0 k0 raw) in Hc1' by side. rewrite Hc1 in Hc1'. injection Hc1' as <-.
  rewrite (log_opt_same u k0 raw OT Hc HK) in H2'.
  rewrite (add_all_strings_same u k0 raw) in H3' by (apply other_of_notin; exact HA).
  rewrite (add_bools_same u k0 raw) by (apply other_of_notin; exact HB).
  rewrite Htable in H2, H2'. pose proof Hnd as Hnd'. rewrite Htable in Hnd'.
  destruct (strings_frame u sec0 pre post k0 flag0 raw c v
              (handle_log_opt u sec0 a1 ++ [L "--cgroups"; match cg1 with Some (c1 :: s) => c1 :: s | _ => L "split" end])
              Hnd' Hfresh Huq Hraw (add_strings_no_panic _ _ _ _ _ H2)) as [F1 F2].
  rewrite F1 in H2. rewrite F2 in H2'. injection H2 as <-. injection H2' as <-.
  eapply Ins_Rel; [|eapply Rel_trans; [eapply add_all_strings_rel; [exact H3|exact H3']|apply add_bools_rel]].
  eexists _, _. split; [rewrite app_assoc; reflexivity|rewrite app_assoc; reflexivity].
Qed.

(* one option per assignment *)
Lemma head_frame_all v : pt_from_container_unit_all_string_keys = pre ++ (k0, flag0) :: post ->
  NoDup (map fst pt_from_container_unit_all_string_keys) -> unquote_value raw = Some v ->
  ~ In k0 KS -> ~ In k0 KB ->
  forall base cname s1 s2 b1 b2 t1 t2,
  ct_run_head u base cname s1 = COk (b1, t1) -> ct_run_head u' base cname s2 = COk (b2, t2) -> Ins [flag0; v] b1 b2.
Proof.
  intros Htable Hnd Huq HS HB base cname s1 s2 b1 b2 t1 t2.
  unfold ct_run_head. cbv zeta. intros R1 R2. revert R1.
  bel. intros a1 H1. bel. intros cg1 Hc1. bel. intros a2 H2. bel. intros a3 H3. intros E1.
  assert (Eb1 : b1 = add_bools u sec0 pt_from_container_unit_bool_keys a3) by congruence. clear E1. subst b1.
  revert R2. bel. intros a1' H1'. bel. intros cg1' Hc1'. bel. intros a2' H2'. bel. intros a3' H3'. intros E2.
  assert (Eb2 : b2 = add_bools u' sec0 pt_from_container_unit_bool_keys a3') by congruence. clear E2. subst b2.
  rewrite (log_driver_same u k0 raw OT Hc HK) in H1'. rewrite H1 in H1'. injection H1' as <-.
  rewrite (lk_add_any u sec0 k0 raw) in Hc1' by side. rewrite Hc1 in Hc1'. injection Hc1' as <-.
  rewrite (log_opt_same u k0 raw OT Hc HK) in H2'.
  rewrite (add_strings_same u k0 raw) in H2' by (apply other_of_notin; exact HS).
  rewrite H2 in H2'. injection H2' as <-.
  rewrite (add_bools_same u k0 raw) by (apply other_of_notin; exact HB).
  rewrite Htable in H3, H3'. pose proof Hnd as Hnd'. rewrite Htable in Hnd'.
  destruct (all_strings_frame u sec0 pre post k0 flag0 raw v a2 Hnd' Hfresh Huq Hraw (all_strings_no_panic _ _ _ _ _ H3)) as [F1 F2].
  rewrite F1 in H3. rewrite F2 in H3'. injection H3 as <-. injection H3' as <-.
  eapply Ins_Rel; [|apply add_bools_rel].
  eexists _, _. split; [rewrite app_assoc; reflexivity|rewrite app_assoc; reflexivity].
Qed.

(* boolean key *)
Lemma head_frame_bool b : pt_from_container_unit_bool_keys = pre ++ (k0, flag0) :: post ->
  NoDup (map fst pt_from_container_unit_bool_keys) -> to_bool raw = Some b ->
  ~ In k0 KS -> ~ In k0 KA ->
  forall base cname s1 s2 b1 b2 t1 t2,
  ct_run_head u base cname s1 = COk (b1, t1) -> ct_run_head u' base cname s2 = COk (b2, t2) ->
  Ins (if b then [flag0] else [flag0 ++ L "=false"]) b1 b2.
Proof.
  intros Htable Hnd Hb HS HA base cname s1 s2 b1 b2 t1 t2.
  unfold ct_run_head. cbv zeta. intros R1 R2. revert R1.
  bel. intros a1 H1. bel. intros cg1 Hc1. bel. intros a2 H2. bel. intros a3 H3. intros E1.
  assert (Eb1 : b1 = add_bools u sec0 pt_from_container_unit_bool_keys a3) by congruence. clear E1. subst b1.
  revert R2. bel. intros a1' H1'. bel. intros cg1' Hc1'. bel. intros a2' H2'. bel. intros a3' H3'. intros E2.
  assert (Eb2 : b2 = add_bools u' sec0 pt_from_container_unit_bool_keys a3') by congruence. clear E2. subst b2.
  rewrite (log_driver_same u k0 raw OT Hc HK) in H1'. rewrite H1 in H1'. injection H1' as <-.
  rewrite (lk_add_any u sec0 k0 raw) in Hc1' by side. rewrite Hc1 in Hc1'. injection Hc1' as <-.
  rewrite (log_opt_same u k0 raw OT Hc HK) in H2'.
  rewrite (add_strings_same u k0 raw) in H2' by (apply other_of_notin; exact HS).
  rewrite H2 in H2'. injection H2' as <-.
  rewrite (add_all_strings_same u k0 raw) in H3' by (apply other_of_notin; exact HA).
  rewrite H3 in H3'. injection H3' as <-.
  rewrite Htable. pose proof Hnd as Hnd'. rewrite Htable in Hnd'.
  destruct (bools_frame u sec0 pre post k0 flag0 raw b a3 Hnd' Hfresh Hraw Hb) as [F1 F2]. rewrite F1, F2.
  eexists _, _. split; [rewrite app_assoc; reflexivity|rewrite app_assoc; reflexivity].
Qed.
End Heads.

(* ---- closing: every key of the three tables ---- *)
Ltac nodup_keys := cbn [map fst];
  repeat (constructor; [cbn [In]; let X := fresh in intros X; repeat (destruct X as [X|X]; [vm_compute in X; discriminate X|]); exact X|]); constructor.

Lemma string_keys_nodup : NoDup (map fst pt_from_container_unit_string_keys).
Proof. unfold pt_from_container_unit_string_keys. nodup_keys. Qed.
Lemma all_keys_nodup : NoDup (map fst pt_from_container_unit_all_string_keys).
Proof. unfold pt_from_container_unit_all_string_keys. nodup_keys. Qed.
Lemma bool_keys_nodup : NoDup (map fst pt_from_container_unit_bool_keys).
Proof. unfold pt_from_container_unit_bool_keys. nodup_keys. Qed.

Lemma mem_str_in k l : In k l -> mem_str k l = true.
Proof. intros H. unfold mem_str. apply existsb_exists. exists k. split; [exact H|apply str_eqb_refl]. Qed.

(* the three tables and the common keys are pairwise disjoint *)
Lemma tables_disjoint :
  forallb (fun k => negb (mem_str k (COMMON ++ KA ++ KB))) KS && forallb (fun k => negb (mem_str k (COMMON ++ KS ++ KB))) KA &&
  forallb (fun k => negb (mem_str k (COMMON ++ KS ++ KA))) KB = true.
Proof. vm_compute. reflexivity. Qed.

Lemma notin_of_sweep k own rest : forallb (fun k => negb (mem_str k rest)) own = true -> In k own -> ~ In k rest.
Proof. intros F Hin X. rewrite forallb_forall in F. specialize (F _ Hin). rewrite (mem_str_in _ _ X) in F. discriminate. Qed.

Lemma raw_ne_of_unquote raw c v : unquote_value raw = Some (c :: v) -> raw <> [].
Proof. intros H ->. vm_compute in H. discriminate. Qed.

Section Closing.
Variables (podman : str) (exists_path : str -> bool) (kill_fixed mount_nl : bool).
Notation fc := (from_container podman exists_path kill_fixed mount_nl).
Notation sec0 := c_CONTAINER_SECTION.

Theorem container_string_key_frame_closed u k0 flag0 raw c v path tbl svc1 sp1 t1 svc2 sp2 t2 :
  In (k0, flag0) pt_from_container_unit_string_keys -> values_raw u sec0 k0 = [] -> unquote_value raw = Some (c :: v) ->
  fc u path tbl = COk (svc1, sp1, t1) -> fc (add_entry u sec0 k0 raw) path tbl = COk (svc2, sp2, t2) ->
  exists before1 before2 p q,
    vals svc1 SEC_S (s2l "ExecStart") = before1 ++ [quote_words (p ++ q)] /\
    vals svc2 SEC_S (s2l "ExecStart") = before2 ++ [quote_words (p ++ [flag0; c :: v] ++ q)].
Proof.
  intros Hin Hfresh Huq R1 R2. destruct (in_split _ _ Hin) as (pre & post & Ht).
  pose proof tables_disjoint as D. apply andb_prop in D. destruct D as [D DB]. apply andb_prop in D. destruct D as [DS DA].
  assert (HK : ~ In k0 (COMMON ++ KA ++ KB)) by (apply (notin_of_sweep _ KS); [exact DS|apply (in_map fst) in Hin; exact Hin]).
  assert (Hc : incl COMMON (COMMON ++ KA ++ KB)) by (intros x Hx; apply in_or_app; left; exact Hx).
  refine (container_key_frame podman exists_path kill_fixed mount_nl u k0 raw _ [flag0; c :: v] Hc HK _ path tbl svc1 sp1 t1 svc2 sp2 t2 R1 R2).
  eapply head_frame_string; try eassumption; [eapply raw_ne_of_unquote; exact Huq|exact string_keys_nodup| |].
  - intros X. apply HK. apply in_or_app. right. apply in_or_app. left. exact X.
  - intros X. apply HK. apply in_or_app. right. apply in_or_app. right. exact X.
Qed.

Theorem container_all_key_frame_closed u k0 flag0 raw c v path tbl svc1 sp1 t1 svc2 sp2 t2 :
  In (k0, flag0) pt_from_container_unit_all_string_keys -> values_raw u sec0 k0 = [] -> unquote_value raw = Some (c :: v) ->
  fc u path tbl = COk (svc1, sp1, t1) -> fc (add_entry u sec0 k0 raw) path tbl = COk (svc2, sp2, t2) ->
  exists before1 before2 p q,
    vals svc1 SEC_S (s2l "ExecStart") = before1 ++ [quote_words (p ++ q)] /\
    vals svc2 SEC_S (s2l "ExecStart") = before2 ++ [quote_words (p ++ [flag0; c :: v] ++ q)].
Proof.
  intros Hin Hfresh Huq R1 R2. destruct (in_split _ _ Hin) as (pre & post & Ht).
  pose proof tables_disjoint as D. apply andb_prop in D. destruct D as [D DB]. apply andb_prop in D. destruct D as [DS DA].
  assert (HK : ~ In k0 (COMMON ++ KS ++ KB)) by (apply (notin_of_sweep _ KA); [exact DA|apply (in_map fst) in Hin; exact Hin]).
  assert (Hc : incl COMMON (COMMON ++ KS ++ KB)) by (intros x Hx; apply in_or_app; left; exact Hx).
  refine (container_key_frame podman exists_path kill_fixed mount_nl u k0 raw _ [flag0; c :: v] Hc HK _ path tbl svc1 sp1 t1 svc2 sp2 t2 R1 R2).
  eapply head_frame_all; try eassumption; [eapply raw_ne_of_unquote; exact Huq|exact all_keys_nodup| |].
  - intros X. apply HK. apply in_or_app. right. apply in_or_app. left. exact X.
  - intros X. apply HK. apply in_or_app. right. apply in_or_app. right. exact X.
Qed.

Theorem container_bool_key_frame_closed u k0 flag0 raw b path tbl svc1 sp1 t1 svc2 sp2 t2 :
  In (k0, flag0) pt_from_container_unit_bool_keys -> values_raw u sec0 k0 = [] -> raw <> [] -> to_bool raw = Some b ->
  fc u path tbl = COk (svc1, sp1, t1) -> fc (add_entry u sec0 k0 raw) path tbl = COk (svc2, sp2, t2) ->
  exists before1 before2 p q,
    vals svc1 SEC_S (s2l "ExecStart") = before1 ++ [quote_words (p ++ q)] /\
    vals svc2 SEC_S (s2l "ExecStart") = before2 ++ [quote_words (p ++ (if b then [flag0] else [flag0 ++ s2l "=false"]) ++ q)].
Proof.
  intros Hin Hfresh Hraw Hb R1 R2. destruct (in_split _ _ Hin) as (pre & post & Ht).
  pose proof tables_disjoint as D. apply andb_prop in D. destruct D as [D DB]. apply andb_prop in D. destruct D as [DS DA].
  assert (HK : ~ In k0 (COMMON ++ KS ++ KA)) by (apply (notin_of_sweep _ KB); [exact DB|apply (in_map fst) in Hin; exact Hin]).
  assert (Hc : incl COMMON (COMMON ++ KS ++ KA)) by (intros x Hx; apply in_or_app; left; exact Hx).
  refine (container_key_frame podman exists_path kill_fixed mount_nl u k0 raw _ _ Hc HK _ path tbl svc1 sp1 t1 svc2 sp2 t2 R1 R2).
  eapply head_frame_bool; try eassumption; [exact bool_keys_nodup| |].
  - intros X. apply HK. apply in_or_app. right. apply in_or_app. left. exact X.
  - intros X. apply HK. apply in_or_app. right. apply in_or_app. right. exact X.
Qed.
End Closing.

(* the premises are satisfiable: Timezone=UTC added to a unit that has no Timezone *)
Example frame_example :
  exec_of (convert_one (s2l "/usr/bin/podman") (fun _ => false) true false demo_unit (s2l "/d/a.container") TContainer demo_tbl)
    = Some [s2l "/usr/bin/podman run --name systemd-%N --cidfile=%t/%N.cid --replace --rm --cgroups split --sdnotify=conmon -d img"] /\
  exec_of (convert_one (s2l "/usr/bin/podman") (fun _ => false) true false (add_entry demo_unit c_CONTAINER_SECTION (s2l "Timezone") (s2l "UTC")) (s2l "/d/a.container") TContainer demo_tbl)
    = Some [s2l "/usr/bin/podman run --name systemd-%N --cidfile=%t/%N.cid --replace --rm --cgroups split --tz UTC --sdnotify=conmon -d img"].
Proof. vm_compute. split; reflexivity. Qed.
