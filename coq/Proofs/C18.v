From QV Require Import Model.Base Model.Unit Model.Output Proofs.Util Proofs.C06.
Open Scope N_scope.

Lemma emit_errs fc a svcs s : In s svcs -> write_ok fc (s_fault s) = false -> In (s_path s) (snd (emit false fc a svcs)).
Proof.
  intros Hin Hw. cbn [emit snd]. apply in_flat_map. exists s. split; [exact Hin|].
  unfold emit_one. destruct (s_fault s); cbn in *; try discriminate; try (left; reflexivity).
  rewrite Hw. left. reflexivity.
Qed.

Lemma emit_not_enabled fc a svcs p : In (EEnable p) (fst (emit false fc a svcs)) ->
  exists s, In s svcs /\ s_path s = p /\ write_ok fc (s_fault s) = true.
Proof.
  cbn [emit fst]. intros H. apply in_flat_map in H. destruct H as (s & Hs & H). exists s. split; [exact Hs|].
  unfold emit_one in H. destruct (s_fault s) eqn:F; cbn in H.
  - destruct H as [H|[H|[]]]; [discriminate|]. injection H as <-. split; reflexivity.
  - destruct H.
  - destruct H as [H|[]]. discriminate.
  - destruct (negb fc) eqn:N; cbn in H.
    + destruct H as [H|[H|[]]]; [discriminate|]. injection H as <-. split; [reflexivity|exact N].
    + destruct H as [H|[]]. discriminate.
Qed.

Lemma emit_others_written fc a svcs s : In s svcs -> s_fault s = FNone ->
  In (EWriteFile (s_path s) (header a ++ concat (write_calls (s_unit s))) true) (fst (emit false fc a svcs)) /\
  In (EEnable (s_path s)) (fst (emit false fc a svcs)).
Proof.
  intros Hin Hf. cbn [emit fst]. split; apply in_flat_map; exists s; (split; [exact Hin|]); unfold emit_one; rewrite Hf; cbn; auto.
Qed.

(* with the flush checked: any fault on a file => that file is in the error list, the exit status is 1, the file is not enabled;
   every fault-free service is still written completely and enabled *)
Theorem faults_reported a prev svcs s : In s svcs -> s_fault s <> FNone -> NoDup (map s_path svcs) ->
  let '(effs, errs, exit) := output_phase false true false a prev svcs in
  In (s_path s) errs /\ exit = 1 /\ ~ In (EEnable (s_path s)) effs /\
  (forall t, In t svcs -> s_fault t = FNone ->
     In (EWriteFile (s_path t) (header a ++ concat (write_calls (s_unit t))) true) effs /\ In (EEnable (s_path t)) effs).
Proof.
  intros Hin Hf Hnd. unfold output_phase. cbn [negb andb].
  destruct (emit false true a svcs) as [effs errs] eqn:E.
  assert (Hw : write_ok true (s_fault s) = false) by (destruct (s_fault s); try reflexivity; congruence).
  pose proof (emit_errs true a svcs s Hin Hw) as He. rewrite E in He. cbn [snd] in He.
  repeat split.
  - apply in_or_app. right. exact He.
  - destruct (prev ++ errs) eqn:X; [|reflexivity]. apply app_eq_nil in X. destruct X as [_ ->]. destruct He.
  - intros [X|X]; [discriminate|]. pose proof (emit_not_enabled true a svcs (s_path s)) as Hn. rewrite E in Hn. cbn [fst] in Hn.
    destruct (Hn X) as (t & Ht & Hp & Hwt).
    assert (t = s).
    { clear -Hnd Ht Hin Hp. induction svcs as [|x r IH]; [destruct Ht|]. cbn [map] in Hnd. inversion Hnd as [|? ? Hni Hnd']; subst.
      destruct Ht as [->|Ht], Hin as [->|Hin]; auto.
      - exfalso. apply Hni. rewrite Hp. apply in_map. exact Hin.
      - exfalso. apply Hni. rewrite <- Hp. apply in_map. exact Ht. }
    subst t. congruence.
  - pose proof (emit_others_written true a svcs t H H0) as [A _]. rewrite E in A. right. exact A.
  - pose proof (emit_others_written true a svcs t H H0) as [_ B]. rewrite E in B. right. exact B.
Qed.

(* pinned: a failing flush is lost: no error, exit 0, and the incompletely written service is enabled *)
Definition demo_svc : service := {| s_path := s2l "/out/b.service"; s_unit := [(s2l "Service", [(s2l "ExecStart", s2l "/bin/true")])]; s_fault := FFlush |}.
Lemma flush_pinned_refuted :
  snd (output_phase false false false (s2l "q") [] [demo_svc]) = 0 /\
  In (EEnable (s2l "/out/b.service")) (fst (fst (output_phase false false false (s2l "q") [] [demo_svc]))) /\
  snd (output_phase false true false (s2l "q") [] [demo_svc]) = 1.
Proof. vm_compute. repeat split; auto. Qed.

(* ---- dry run ---- *)
Lemma emit_dry_effects fc a svcs : fst (emit true fc a svcs) = map (fun s => EPrint (s_path s) (to_string (s_unit s))) svcs /\ snd (emit true fc a svcs) = [].
Proof.
  cbn [emit fst snd]. split.
  - induction svcs as [|x r IH]; [reflexivity|]. cbn [flat_map map]. rewrite IH. reflexivity.
  - induction svcs as [|x r IH]; [reflexivity|]. cbn [flat_map]. rewrite IH. reflexivity.
Qed.

Theorem dry_run_no_effects fc mk a prev svcs :
  let '(effs, errs, exit) := output_phase true fc mk a prev svcs in
  effs = map (fun s => EPrint (s_path s) (to_string (s_unit s))) svcs /\ errs = prev /\ exit = match prev with [] => 0 | _ => 1 end.
Proof.
  unfold output_phase. cbn [negb andb]. destruct (emit_dry_effects fc a svcs) as [A B].
  destruct (emit true fc a svcs) as [effs errs]. cbn [fst snd] in *. subst. rewrite app_nil_r. repeat split.
Qed.

Lemma emit_real_nofault fc a svcs : Forall (fun s => s_fault s = FNone) svcs ->
  fst (emit false fc a svcs) = flat_map (fun s => [EWriteFile (s_path s) (header a ++ to_string (s_unit s)) true; EEnable (s_path s)]) svcs
  /\ snd (emit false fc a svcs) = [].
Proof.
  cbn [emit fst snd]. induction 1 as [|x r Hx Hr [IH1 IH2]]; [split; reflexivity|].
  cbn [flat_map]. rewrite IH1, IH2. unfold emit_one. rewrite Hx. cbn. rewrite write_calls_concat. split; reflexivity.
Qed.

(* the text printed by --dry-run for a service is the text a fault-free real run writes after the header line *)
Theorem dry_run_same_text fc a prev svcs : Forall (fun s => s_fault s = FNone) svcs ->
  let '(effs_d, errs_d, exit_d) := output_phase true fc false a prev svcs in
  let '(effs_r, errs_r, exit_r) := output_phase false fc false a prev svcs in
  errs_d = errs_r /\ exit_d = exit_r /\
  forall s, In s svcs -> In (EPrint (s_path s) (to_string (s_unit s))) effs_d /\
                         In (EWriteFile (s_path s) (header a ++ to_string (s_unit s)) true) effs_r.
Proof.
  intros Hnf. unfold output_phase. cbn [negb andb].
  destruct (emit_dry_effects fc a svcs) as [A B]. destruct (emit_real_nofault fc a svcs Hnf) as [C D].
  destruct (emit true fc a svcs) as [ed xd]. destruct (emit false fc a svcs) as [er xr]. cbn [fst snd] in *. subst.
  repeat split.
  - apply in_map_iff. exists s. split; [reflexivity|exact H].
  - right. apply in_flat_map. exists s. split; [exact H|left; reflexivity].
Qed.
