(* C03: reading any documented rendering of a file model yields exactly its merged sections.
   Also the base of C06 (generated files read back) and of the no-hang argument for the parser. *)
From QV Require Import Model.Base Generated.Tables Model.Quote Model.Unquote Model.PortRange Model.Unit Model.Lex Model.Parser
  Spec.Layout Proofs.Util.
Open Scope N_scope.

Definition val_ok (v : str) : Prop :=
  unquote_value v <> None /\ (match v with c :: _ => is_blank_c c = false | [] => True end) /\ trim_end v = v.

Lemma prun_cons st u c r :
  prun st u (c :: r) = match pstep st u c with Some (st', u') => prun st' u' r | None => None end.
Proof. reflexivity. Qed.

(* ---------- character facts ---------- *)
Ltac unfold_classes :=
  unfold cont_safe, is_key_char in *;
  unfold is_doc_key_char, is_comment_start, is_ascii_whitespace, key_stop, is_key_char, is_alnum, is_blank, is_blank_c,
    is_line_ws, is_comment_c, cont_safe, cHASH, cSEMI, cLB, cRB, cEQ, cSP, cTAB, cNL, cCR, cDASH, cBS in *.

Ltac hyps_to_props :=
  repeat match goal with
  | H : (_ || _) = true |- _ => apply orb_true_iff in H; destruct H as [H|H]
  | H : (_ && _) = true |- _ => apply andb_true_iff in H; destruct H as [? H]
  | H : negb _ = true |- _ => apply negb_true_iff in H
  | H : (_ <=? _) = true |- _ => apply N.leb_le in H
  | H : (_ =? _) = true |- _ => apply N.eqb_eq in H
  | H : (_ =? _) = false |- _ => apply N.eqb_neq in H
  | H : (_ || _) = false |- _ => apply orb_false_iff in H; destruct H as [? H]
  end.

Ltac goal_cases :=
  repeat match goal with
  | |- context[N.eqb ?a ?b] => destruct (N.eqb_spec a b); try lia
  | |- context[N.leb ?a ?b] => destruct (N.leb_spec a b); try lia
  end; cbn [andb orb negb]; try reflexivity; try lia.

Ltac solve_char := unfold_classes; hyps_to_props; subst; goal_cases.

Lemma linews_facts c : is_line_ws c = true ->
  is_comment_start c = false /\ (c =? cLB) = false /\ is_ascii_whitespace c = true /\ (c =? cNL) = false.
Proof. intros H. repeat split; solve_char. Qed.

Lemma nl_facts : is_comment_start cNL = false /\ (cNL =? cLB) = false /\ is_ascii_whitespace cNL = true.
Proof. repeat split; reflexivity. Qed.

Lemma keychar_facts c : is_doc_key_char c = true ->
  is_comment_start c = false /\ (c =? cLB) = false /\ is_ascii_whitespace c = false /\ key_stop c = false /\ is_key_char c = true.
Proof. intros H. repeat split; solve_char. Qed.

Lemma blank_facts c : is_blank_c c = true -> is_blank c = true /\ key_stop c = true /\ (c =? cEQ) = false /\ is_line_ws c = true.
Proof. intros H. repeat split; solve_char. Qed.

Lemma comment_facts c : is_comment_c c = true -> is_comment_start c = true /\ (c =? cNL) = false.
Proof. intros H. split; solve_char. Qed.

(* ---------- line-start states ---------- *)
Inductive LineStart : pstate -> pstate -> Prop :=
| LSTop : LineStart PTop PCommentTop
| LSBody s : LineStart (PBody s) (PCommentBody s).

Lemma ls_ws st cst u c r : LineStart st cst -> is_line_ws c = true -> prun st u (c :: r) = prun st u r.
Proof.
  intros L H. destruct (linews_facts c H) as (A & B & C & _). rewrite prun_cons.
  destruct L; cbn [pstep]; unfold body_step; rewrite A, B, C; reflexivity.
Qed.

Lemma ls_linews st cst u b r : LineStart st cst -> LineWs b -> prun st u (b ++ r) = prun st u r.
Proof.
  intros L H. induction H as [|c b Hc Hb IH]; [reflexivity|]. cbn [app].
  rewrite (ls_ws st cst u c _ L Hc). exact IH.
Qed.

Lemma ls_nl st cst u r : LineStart st cst -> prun st u (cNL :: r) = prun st u r.
Proof. intros L. rewrite prun_cons. destruct L; reflexivity. Qed.

Lemma comment_body st cst u body r : LineStart st cst -> ~ In cNL body ->
  prun cst u (body ++ cNL :: r) = prun st u r.
Proof.
  intros L. induction body as [|c body IH]; intros Hn.
  - cbn [app]. rewrite prun_cons. destruct L; cbn [pstep]; rewrite N.eqb_refl; reflexivity.
  - cbn [app]. rewrite prun_cons.
    assert (Hc : (c =? cNL) = false) by (apply N.eqb_neq; intros ->; apply Hn; left; reflexivity).
    destruct L; cbn [pstep]; rewrite Hc; apply IH; intros H; apply Hn; right; exact H.
Qed.

Lemma ls_junk st cst u j r : LineStart st cst -> JunkLine j -> prun st u (j ++ r) = prun st u r.
Proof.
  intros L H. destruct H as [b Hb|b c body Hb Hc Hn].
  - rewrite <- app_assoc. rewrite (ls_linews st cst u b _ L Hb). cbn [app]. apply (ls_nl st cst u r L).
  - rewrite <- app_assoc. rewrite (ls_linews st cst u b _ L Hb). cbn [app]. rewrite prun_cons.
    destruct (comment_facts c Hc) as [A _].
    assert (E : pstep st u c = Some (cst, u)).
    { destruct L; cbn [pstep]; unfold body_step; rewrite A; reflexivity. }
    rewrite E. rewrite <- app_assoc. cbn [app]. apply (comment_body st cst u body r L Hn).
Qed.

(* ---------- section header ---------- *)
Lemma header_name u n : forall a r, ~ In cRB n -> ~ In cNL n -> a ++ n <> [] ->
  prun (PHeader a) u (n ++ cRB :: r) = prun (PBody (a ++ n)) (ensure_section u (a ++ n)) r.
Proof.
  induction n as [|c n IH]; intros a r Hrb Hnl Hne.
  - cbn [app]. rewrite prun_cons. cbn [pstep]. rewrite N.eqb_refl. rewrite app_nil_r in *.
    destruct a; [congruence|reflexivity].
  - cbn [app]. rewrite prun_cons. cbn [pstep].
    assert (H1 : (c =? cRB) = false) by (apply N.eqb_neq; intros ->; apply Hrb; left; reflexivity).
    assert (H2 : (c =? cNL) = false) by (apply N.eqb_neq; intros ->; apply Hnl; left; reflexivity).
    rewrite H1, H2. rewrite (IH (a ++ [c]) r).
    + rewrite <- app_assoc. reflexivity.
    + intros H; apply Hrb; right; exact H.
    + intros H; apply Hnl; right; exact H.
    + rewrite <- app_assoc. exact Hne.
Qed.

Lemma ls_header st cst u name r : LineStart st cst -> name_ok name ->
  prun st u (cLB :: name ++ cRB :: r) = prun (PBody name) (ensure_section u name) r.
Proof.
  intros L (Hne & Hrb & Hnl). rewrite prun_cons.
  assert (E : pstep st u cLB = Some (PHeader [], u)) by (destruct L; reflexivity).
  rewrite E. apply (header_name u name [] r Hrb Hnl). exact Hne.
Qed.

(* ---------- key, '=' ---------- *)
Definition good_key_char (c : N) : Prop :=
  is_comment_start c = false /\ (c =? cLB) = false /\ is_ascii_whitespace c = false /\ key_stop c = false /\ is_key_char c = true.
Definition good_key (k : str) : Prop := k <> [] /\ Forall good_key_char k.

Lemma doc_key_good k : key_ok k -> good_key k.
Proof. intros [Hne H]. split; [exact Hne|]. revert H. apply Forall_impl. exact keychar_facts. Qed.

Lemma model_keychar_facts c : is_key_char c = true -> good_key_char c.
Proof. intros H. assert (H' := H). unfold good_key_char. repeat split; try exact H'; clear H'; solve_char. Qed.

Lemma pkey_more sec u k' : forall a r, Forall good_key_char k' ->
  prun (PKey sec a) u (k' ++ r) = prun (PKey sec (a ++ k')) u r.
Proof.
  induction k' as [|c k' IH]; intros a r H.
  - rewrite app_nil_r. reflexivity.
  - inversion H as [|? ? Hc Hk]; subst. cbn [app]. rewrite prun_cons. cbn [pstep].
    destruct Hc as (_ & _ & _ & Hs & Hk'). rewrite Hs, Hk'.
    rewrite IH by exact Hk. rewrite <- app_assoc. reflexivity.
Qed.

Lemma body_key sec u k r : good_key k -> prun (PBody sec) u (k ++ r) = prun (PKey sec k) u r.
Proof.
  intros [Hne Hk]. destruct k as [|c k']; [congruence|]. inversion Hk as [|? ? Hc Hk']; subst.
  cbn [app]. rewrite prun_cons. cbn [pstep]. unfold body_step.
  destruct Hc as (A & B & C & D & E). rewrite A, B, C, D, E.
  apply (pkey_more sec u k' [c] r Hk').
Qed.

Lemma afterkey_blanks sec k u b : forall r, Blanks b ->
  prun (PAfterKey sec k) u (b ++ cEQ :: r) = prun (PAfterEq sec k) u r.
Proof.
  induction b as [|c b IH]; intros r H.
  - cbn [app]. rewrite prun_cons. reflexivity.
  - inversion H as [|? ? Hc Hb]; subst. cbn [app]. rewrite prun_cons. cbn [pstep].
    destruct (blank_facts c Hc) as (A & _). rewrite A. apply IH. exact Hb.
Qed.

Lemma key_eq sec k u b r : Blanks b -> prun (PKey sec k) u (b ++ cEQ :: r) = prun (PAfterEq sec k) u r.
Proof.
  intros H. destruct b as [|c b].
  - cbn [app]. rewrite prun_cons. reflexivity.
  - inversion H as [|? ? Hc Hb]; subst. cbn [app]. rewrite prun_cons. cbn [pstep].
    destruct (blank_facts c Hc) as (A & B & _). rewrite B, A. apply afterkey_blanks. exact Hb.
Qed.

Lemma aftereq_blanks sec k u b : forall r, Blanks b -> prun (PAfterEq sec k) u (b ++ r) = prun (PAfterEq sec k) u r.
Proof.
  induction b as [|c b IH]; intros r H; [reflexivity|].
  inversion H as [|? ? Hc Hb]; subst. cbn [app]. rewrite prun_cons. cbn [pstep].
  destruct (blank_facts c Hc) as (A & _). rewrite A. apply IH. exact Hb.
Qed.

(* ---------- the value ---------- *)
Definition vm (p : bool) : vmode := if p then VBackslash else VNormal.
Definition pre (p : bool) : str := if p then [cBS] else [].

Lemma lcr : c_LINE_CONTINUATION_REPLACEMENT = [cSP].
Proof. reflexivity. Qed.

Lemma pvalue_step sec k u m ign acc c r :
  prun (PValue sec k m ign acc) u (c :: r) =
  match value_step m ign acc c with
  | Some (m', ign', acc') => prun (PValue sec k m' ign' acc') u r
  | None => match finish_entry u sec k acc with
            | Some u' => match body_step sec u' c with Some (st', u'') => prun st' u'' r | None => None end
            | None => None
            end
  end.
Proof.
  rewrite prun_cons. cbn [pstep]. destruct (value_step m ign acc c) as [[[m' ign'] acc']|]; [reflexivity|].
  destruct (finish_entry u sec k acc); reflexivity.
Qed.

Lemma spaces_run sec k u acc sp : forall ign r, Spaces sp ->
  prun (PValue sec k VBackslash ign acc) u (sp ++ r) = prun (PValue sec k VBackslash (length sp + ign) acc) u r.
Proof.
  induction sp as [|c sp IH]; intros ign r H; [reflexivity|].
  inversion H as [|? ? Hc Hs]; subst. cbn [app]. rewrite pvalue_step. cbn [value_step].
  change (32 =? cSP) with true. cbn iota. rewrite IH by exact Hs. cbn [length]. f_equal. f_equal. lia.
Qed.

Lemma comment_in_value sec k u acc body : forall ign r, ~ In cNL body ->
  prun (PValue sec k VComment ign acc) u (body ++ cNL :: r) = prun (PValue sec k VCont ign acc) u r.
Proof.
  induction body as [|c body IH]; intros ign r Hn.
  - cbn [app]. rewrite pvalue_step. cbn [value_step]. rewrite N.eqb_refl. reflexivity.
  - cbn [app]. rewrite pvalue_step. cbn [value_step].
    assert (Hc : (c =? cNL) = false) by (apply N.eqb_neq; intros ->; apply Hn; left; reflexivity).
    rewrite Hc. apply IH. intros H; apply Hn; right; exact H.
Qed.

Lemma comment_lines_run sec k u acc cl : forall ign r, CommentLines cl ->
  prun (PValue sec k VCont ign acc) u (cl ++ r) = prun (PValue sec k VCont (match cl with [] => ign | _ => O end) acc) u r.
Proof.
  intros ign r H. revert ign. induction H as [|c body t Hc Hn Ht IH]; intros ign; [reflexivity|].
  cbn [app]. rewrite pvalue_step. cbn [value_step]. destruct (comment_facts c Hc) as [A _]. rewrite A.
  rewrite <- app_assoc. cbn [app]. rewrite comment_in_value by exact Hn. rewrite IH.
  destruct t; reflexivity.
Qed.

Lemma cont_like_normal sec k u ign acc c r : cont_safe c = true ->
  prun (PValue sec k VCont ign acc) u (c :: r) = prun (PValue sec k VNormal O acc) u (c :: r).
Proof.
  intros H. rewrite !pvalue_step. cbn [value_step].
  assert (A : is_comment_start c = false) by solve_char.
  assert (B : (c =? cNL) = false) by solve_char.
  assert (C : (c =? cLB) = false) by solve_char.
  rewrite A, B, C. destruct (c =? cBS); reflexivity.
Qed.

Lemma vspell_head c v t : VSpell false (c :: v) t -> exists c' t', t = c' :: t' /\ (c' = c \/ c' = cBS).
Proof.
  intros H. inversion H; subst.
  - eexists _, _. split; [reflexivity|left; reflexivity].
  - eexists _, _. split; [reflexivity|left; reflexivity].
  - eexists _, _. split; [reflexivity|right; reflexivity].
Qed.

Lemma cont_safe_bs : cont_safe cBS = true.  Proof. reflexivity. Qed.
Lemma cont_safe_sp : cont_safe cSP = true.  Proof. reflexivity. Qed.

Lemma vspell_run p v t : VSpell p v t -> forall sec k u acc r,
  prun (PValue sec k (vm p) O acc) u (t ++ r) = prun (PValue sec k VNormal O (acc ++ pre p ++ v)) u r.
Proof.
  intros H. induction H as [|c v t Hb Hn H IH|v t H IH|c v t Hs Hn H IH|sp cl c v t Hsp Hcl Hc H IH]; intros sec k u acc r.
  - cbn [vm pre app]. rewrite app_nil_r. reflexivity.
  - cbn [vm pre app] in *. rewrite pvalue_step. cbn [value_step].
    apply N.eqb_neq in Hb, Hn. rewrite Hb, Hn. rewrite IH. rewrite <- app_assoc. reflexivity.
  - cbn [vm pre app] in *. rewrite pvalue_step. cbn [value_step]. rewrite N.eqb_refl.
    rewrite IH. reflexivity.
  - cbn [vm pre app] in *. rewrite pvalue_step. cbn [value_step].
    apply N.eqb_neq in Hs, Hn. rewrite Hs, Hn. cbn [repeat app]. rewrite IH. cbn [app].
    rewrite <- !app_assoc. reflexivity.
  - cbn [vm pre app] in *. rewrite pvalue_step. cbn [value_step]. rewrite N.eqb_refl.
    rewrite <- app_assoc. rewrite spaces_run by exact Hsp. cbn [app].
    rewrite pvalue_step. cbn [value_step]. change (cNL =? cSP) with false. cbn iota. rewrite N.eqb_refl. rewrite lcr.
    rewrite <- app_assoc. rewrite comment_lines_run by exact Hcl.
    destruct (vspell_head c v t H) as (c' & t' & -> & Hc').
    cbn [app]. rewrite cont_like_normal by (destruct Hc' as [-> | ->]; [exact Hc|exact cont_safe_bs]).
    change (c' :: t' ++ r) with ((c' :: t') ++ r). rewrite IH. rewrite <- app_assoc. reflexivity.
Qed.

Lemma trailing_blanks sec k u tb : forall acc r, Blanks tb ->
  prun (PValue sec k VNormal O acc) u (tb ++ r) = prun (PValue sec k VNormal O (acc ++ tb)) u r.
Proof.
  induction tb as [|c tb IH]; intros acc r H.
  - rewrite app_nil_r. reflexivity.
  - inversion H as [|? ? Hc Hb]; subst. cbn [app]. rewrite pvalue_step. cbn [value_step].
    assert (A : (c =? cBS) = false) by solve_char. assert (B : (c =? cNL) = false) by solve_char.
    rewrite A, B. rewrite IH by exact Hb. rewrite <- app_assoc. reflexivity.
Qed.

(* ---------- trimming ---------- *)
Lemma trim_start_ws b s : Forall (fun c => is_unicode_ws c = true) b -> trim_start (b ++ s) = trim_start s.
Proof. induction 1 as [|c b Hc Hb IH]; [reflexivity|]. cbn [app trim_start]. rewrite Hc. exact IH. Qed.

Lemma blank_unicode_ws c : is_blank_c c = true -> is_unicode_ws c = true.
Proof. intros H. unfold is_unicode_ws. solve_char. Qed.

Lemma trim_end_blanks v tb : trim_end v = v -> Blanks tb -> trim_end (v ++ tb) = v.
Proof.
  intros Hv Hb. unfold trim_end in *. rewrite rev_app_distr. rewrite trim_start_ws.
  - exact Hv.
  - apply Forall_rev. revert Hb. apply Forall_impl. exact blank_unicode_ws.
Qed.

(* ---------- one entry line ---------- *)
Lemma value_done sec k u acc r :
  prun (PValue sec k VNormal O acc) u (cNL :: r) =
  match finish_entry u sec k acc with Some u' => prun (PBody sec) u' r | None => None end.
Proof. rewrite pvalue_step. cbn [value_step]. destruct (finish_entry u sec k acc); reflexivity. Qed.

Lemma value_done_cont sec k u ign acc r :
  prun (PValue sec k VCont ign acc) u (cNL :: r) =
  match finish_entry u sec k acc with Some u' => prun (PBody sec) u' r | None => None end.
Proof.
  rewrite pvalue_step. cbn [value_step]. change (is_comment_start cNL) with false. cbv iota. rewrite N.eqb_refl.
  destruct (finish_entry u sec k acc); reflexivity.
Qed.

Lemma blank_cont_safe c : is_blank_c c = true -> cont_safe c = true.
Proof. intros H. unfold cont_safe. solve_char. Qed.

(* the tail of an entry whose last line ends in a backslash: backslash, spaces, newline, comment lines, blanks, newline *)
Lemma trailing_continuation sec k u acc sp cl tb2 r : Spaces sp -> CommentLines cl -> Blanks tb2 ->
  prun (PValue sec k VNormal O acc) u (cBS :: sp ++ cNL :: cl ++ tb2 ++ cNL :: r) =
  match finish_entry u sec k (acc ++ [cSP] ++ tb2) with Some u' => prun (PBody sec) u' r | None => None end.
Proof.
  intros Hsp Hcl Htb. rewrite pvalue_step. cbn [value_step]. rewrite N.eqb_refl.
  rewrite spaces_run by exact Hsp. rewrite pvalue_step. cbn [value_step]. change (cNL =? cSP) with false. cbv iota. rewrite N.eqb_refl. rewrite lcr.
  rewrite comment_lines_run by exact Hcl.
  destruct tb2 as [|c tb2].
  - cbn [app]. rewrite value_done_cont. reflexivity.
  - inversion Htb as [|? ? Hc Hb]; subst. cbn [app]. rewrite cont_like_normal by (apply blank_cont_safe; exact Hc).
    change (c :: tb2 ++ cNL :: r) with ((c :: tb2) ++ cNL :: r). rewrite trailing_blanks by exact Htb. rewrite value_done.
    rewrite <- !app_assoc. reflexivity.
Qed.

Lemma entry_line sec u k v line r : good_key k -> val_ok v -> EntryLine k v line ->
  prun (PBody sec) u (line ++ cNL :: r) = prun (PBody sec) (add_entry u sec k v) r.
Proof.
  intros Hk (Hacc & Hlead & Htrim) HL.
  assert (Hfin : forall tb', Blanks tb' -> finish_entry u sec k (v ++ tb') = Some (add_entry u sec k v)).
  { intros tb' Hb'. unfold finish_entry, unit_add_raw. rewrite trim_end_blanks by assumption.
    destruct (unquote_value v); [reflexivity|congruence]. }
  destruct HL as [ind b1 b2 vt tb Hind Hb1 Hb2 Hvs Htb|ind b1 b2 vt tb sp cl tb2 Hind Hb1 Hb2 Hvs Htb Hsp Hcl Htb2].
  - repeat (rewrite <- app_assoc || rewrite <- app_comm_cons).
    rewrite (ls_linews (PBody sec) (PCommentBody sec) u ind _ (LSBody sec) Hind).
    rewrite body_key by exact Hk. rewrite key_eq by exact Hb1. cbn [app].
    rewrite aftereq_blanks by exact Hb2.
    destruct v as [|c v'].
    + (* empty value: everything up to the newline is blanks *)
      inversion Hvs; subst. cbn [app]. rewrite aftereq_blanks by exact Htb.
      rewrite prun_cons. cbn [pstep]. unfold value_start. cbn [value_step].
      specialize (Hfin [] (Forall_nil _)). cbn [app] in Hfin. rewrite Hfin. reflexivity.
    + destruct (vspell_head c v' vt Hvs) as (c' & t' & -> & Hc').
      assert (Hnb : is_blank c' = false).
      { destruct Hc' as [-> | ->]; [|reflexivity]. revert Hlead. clear. intros H. solve_char. }
      cbn [app]. rewrite prun_cons. cbn [pstep]. rewrite Hnb.
      change (match value_start sec k u c' with Some (st', u') => prun st' u' (t' ++ tb ++ cNL :: r) | None => None end)
        with (prun (PValue sec k VNormal O []) u ((c' :: t') ++ tb ++ cNL :: r)).
      rewrite (vspell_run false (c :: v') (c' :: t') Hvs). cbn [pre app].
      rewrite trailing_blanks by exact Htb. rewrite value_done. rewrite Hfin by exact Htb. reflexivity.
  - assert (Hb3 : Blanks (tb ++ [cSP] ++ tb2)).
    { apply Forall_app. split; [exact Htb|]. apply Forall_app. split; [constructor; [reflexivity|constructor]|exact Htb2]. }
    repeat (rewrite <- app_assoc || rewrite <- app_comm_cons).
    rewrite (ls_linews (PBody sec) (PCommentBody sec) u ind _ (LSBody sec) Hind).
    rewrite body_key by exact Hk. rewrite key_eq by exact Hb1. cbn [app].
    rewrite aftereq_blanks by exact Hb2.
    destruct v as [|c v'].
    + inversion Hvs; subst. cbn [app]. rewrite aftereq_blanks by exact Htb.
      rewrite prun_cons. cbn [pstep]. unfold value_start. cbn [value_step]. change (cBS =? cBS) with true. cbv iota.
      change (is_blank cBS) with false. cbv iota.
      change (prun (PValue sec k VBackslash 0 []) u (sp ++ cNL :: cl ++ tb2 ++ cNL :: r))
        with (match value_step VNormal 0 [] cBS with Some (m', ign', acc') => prun (PValue sec k m' ign' acc') u (sp ++ cNL :: cl ++ tb2 ++ cNL :: r) | None => None end).
      rewrite <- (pvalue_step sec k u VNormal 0 [] cBS). rewrite trailing_continuation by assumption.
      cbn [app]. specialize (Hfin ([cSP] ++ tb2)). cbn [app] in Hfin. rewrite Hfin; [reflexivity|].
      constructor; [reflexivity|exact Htb2].
    + destruct (vspell_head c v' vt Hvs) as (c' & t' & -> & Hc').
      assert (Hnb : is_blank c' = false).
      { destruct Hc' as [-> | ->]; [|reflexivity]. revert Hlead. clear. intros H. solve_char. }
      cbn [app]. rewrite prun_cons. cbn [pstep]. rewrite Hnb.
      change (match value_start sec k u c' with Some (st', u') => prun st' u' (t' ++ tb ++ cBS :: sp ++ cNL :: cl ++ tb2 ++ cNL :: r) | None => None end)
        with (prun (PValue sec k VNormal O []) u ((c' :: t') ++ tb ++ cBS :: sp ++ cNL :: cl ++ tb2 ++ cNL :: r)).
      rewrite (vspell_run false (c :: v') (c' :: t') Hvs). cbn [pre app].
      rewrite trailing_blanks by exact Htb. rewrite trailing_continuation by assumption.
      rewrite <- !app_assoc. rewrite (Hfin (tb ++ [cSP] ++ tb2) Hb3). reflexivity.
Qed.

(* ---------- bodies, sections, files ---------- *)
Section WithKeyClass.
Variable key_okp : str -> Prop.
Hypothesis key_okp_good : forall k, key_okp k -> good_key k.

Lemma body_lines sec es body : BodyLines val_ok key_okp es body -> forall u r,
  prun (PBody sec) u (body ++ r) = prun (PBody sec) (add_entries u sec es) r.
Proof.
  induction 1 as [|es j t Hj Hb IH|k v es line t Hk Hv HL Hb IH]; intros u r.
  - reflexivity.
  - rewrite <- app_assoc. rewrite (ls_junk (PBody sec) (PCommentBody sec) u j _ (LSBody sec) Hj). apply IH.
  - rewrite <- app_assoc. cbn [app]. rewrite (entry_line sec u k v line _ (key_okp_good k Hk) Hv HL). rewrite IH. reflexivity.
Qed.

Definition sec_fold (u : unit) (m : fmodel) : unit :=
  fold_left (fun u s => add_entries (ensure_section u (fst s)) (fst s) (snd s)) m u.

Lemma sections_run m t : Sections val_ok key_okp m t -> forall st cst u, LineStart st cst -> prun st u t = Some (sec_fold u m).
Proof.
  induction 1 as [|name es m ind hb body t Hind Hname Hhb Hbody Hs IH]; intros st cst u L.
  - destruct L; reflexivity.
  - repeat (rewrite <- app_assoc || rewrite <- app_comm_cons).
    rewrite (ls_linews st cst u ind _ L Hind).
    rewrite (ls_header st cst u name _ L Hname).
    rewrite (ls_linews (PBody name) (PCommentBody name) _ hb _ (LSBody name) Hhb).
    rewrite (ls_nl (PBody name) (PCommentBody name) _ _ (LSBody name)).
    rewrite (body_lines name es body Hbody).
    rewrite (IH (PBody name) (PCommentBody name) _ (LSBody name)). reflexivity.
Qed.

Lemma renders_run m t : Renders val_ok key_okp m t -> parse_unit t = Some (sec_fold [] m).
Proof.
  unfold parse_unit. induction 1 as [m t Hs|m j t Hj Hr IH].
  - apply (sections_run m t Hs PTop PCommentTop [] LSTop).
  - rewrite (ls_junk PTop PCommentTop [] j t LSTop Hj). exact IH.
Qed.

(* the parser's accumulation is the declarative merge *)
Lemma add_entries_head n es0 r es : add_entries ((n, es0) :: r) n es = (n, es0 ++ es) :: r.
Proof.
  unfold add_entries. revert es0. induction es as [|[k v] es IH]; intros es0; cbn [fold_left fst snd].
  - rewrite app_nil_r. reflexivity.
  - cbn [add_entry]. rewrite str_eqb_refl. rewrite IH. rewrite <- app_assoc. reflexivity.
Qed.

Lemma add_entries_skip n n' es0 r es : n <> n' -> add_entries ((n', es0) :: r) n es = (n', es0) :: add_entries r n es.
Proof.
  intros Hne. unfold add_entries. revert r. induction es as [|[k v] es IH]; intros r; cbn [fold_left fst snd]; [reflexivity|].
  cbn [add_entry]. destruct (str_eqb_spec n n'); [congruence|]. apply IH.
Qed.

Lemma ensure_add_is_insert u n es : add_entries (ensure_section u n) n es = ms_insert u n es.
Proof.
  induction u as [|[n' es0] r IH]; cbn [ensure_section ms_insert].
  - rewrite add_entries_head. reflexivity.
  - destruct (str_eqb_spec n n') as [->|Hne].
    + apply add_entries_head.
    + rewrite add_entries_skip by exact Hne. rewrite IH. reflexivity.
Qed.

Lemma sec_fold_merge m : forall u, sec_fold u m = fold_left (fun u s => ms_insert u (fst s) (snd s)) m u.
Proof.
  unfold sec_fold. induction m as [|[n es] m IH]; intros u; [reflexivity|].
  cbn [fold_left fst snd]. rewrite ensure_add_is_insert. apply IH.
Qed.

Theorem parse_render_gen m t : Renders val_ok key_okp m t -> parse_unit t = Some (merge_sections m).
Proof. intros H. rewrite (renders_run m t H). rewrite sec_fold_merge. reflexivity. Qed.
End WithKeyClass.

Theorem parse_render m t : Renders val_ok key_ok m t -> parse_unit t = Some (merge_sections m).
Proof. apply (parse_render_gen key_ok doc_key_good). Qed.

(* a missing final newline changes nothing *)
Lemma final_newline_step st u : prun st u [cNL] = pfinish st u.
Proof.
  destruct st as [| |name|sec|sec|sec key|sec key|sec key|sec key m ign acc];
    try reflexivity;
    try (cbn; unfold value_start; cbn [value_step]; destruct (finish_entry u sec key []); reflexivity).
  rewrite pvalue_step. destruct m; cbn [value_step pfinish].
  - destruct (finish_entry u sec key acc); reflexivity.
  - change (cNL =? cSP) with false. cbn iota. rewrite N.eqb_refl. cbn [prun pfinish]. rewrite lcr.
    unfold finish_entry. f_equal. unfold trim_end. rewrite rev_app_distr. reflexivity.
  - change (is_comment_start cNL) with false. cbn iota. rewrite N.eqb_refl.
    destruct (finish_entry u sec key acc); reflexivity.
  - rewrite N.eqb_refl. reflexivity.
Qed.

Theorem final_newline_optional t : forall st u, prun st u (t ++ [cNL]) = prun st u t.
Proof.
  induction t as [|c t IH]; intros st u.
  - apply final_newline_step.
  - cbn [app]. rewrite !prun_cons. destruct (pstep st u c) as [[st' u']|]; [apply IH|reflexivity].
Qed.

Corollary parse_render_no_final_nl m t : Renders val_ok key_ok m (t ++ [cNL]) -> parse_unit t = Some (merge_sections m).
Proof. intros H. unfold parse_unit. rewrite <- final_newline_optional. exact (parse_render m _ H). Qed.

(* known finding (pinned by the repository's own test): '[' directly after a continuation ends the value *)
Lemma bracket_refuted :
  parse_unit (s2l "[S]" ++ [cNL] ++ s2l "K=a " ++ [cBS; cNL] ++ s2l "[b]" ++ [cNL]) = Some [(s2l "S", [(s2l "K", s2l "a")]); (s2l "b", [])]
  /\ merge_sections [(s2l "S", [(s2l "K", s2l "a [b]")])] = [(s2l "S", [(s2l "K", s2l "a [b]")])].
Proof. vm_compute. auto. Qed.

(* non-vacuity: a rendering with indentation, comments, blanks around '=', trailing blanks, a continuation with
   spaces before the newline and a comment line after it, a repeated header *)
Example renders_example :
  let text := s2l "# c" ++ [cNL] ++ s2l " [A] " ++ [cNL] ++ s2l "  K1 =  v w" ++ [cBS; cSP; cNL] ++ s2l ";x" ++ [cNL] ++ s2l "y  " ++ [cNL]
              ++ [cNL] ++ s2l "[B]" ++ [cNL] ++ s2l "k=" ++ [cNL] ++ s2l "[A]" ++ [cNL] ++ s2l "K2=z" ++ [cNL] in
  parse_unit text = Some [(s2l "A", [(s2l "K1", s2l "v w y"); (s2l "K2", s2l "z")]); (s2l "B", [(s2l "k", [])])]
  /\ merge_sections [(s2l "A", [(s2l "K1", s2l "v w y")]); (s2l "B", [(s2l "k", [])]); (s2l "A", [(s2l "K2", s2l "z")])]
     = [(s2l "A", [(s2l "K1", s2l "v w y"); (s2l "K2", s2l "z")]); (s2l "B", [(s2l "k", [])])].
Proof. vm_compute. auto. Qed.
