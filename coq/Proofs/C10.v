(* C10: exit status and per-file independence at the level of the process model. *)
From QV Require Import Model.Base Model.Unit Model.Names Model.Convert Model.Process Model.Output Proofs.Util.
Open Scope N_scope.

(* exit status of the output phase: non-zero exactly when the error list is not empty *)
Theorem exit_iff_errors dry fc mk a prev svcs :
  let '(effs, errs, exit) := output_phase dry fc mk a prev svcs in (exit = 1 <-> errs <> []) /\ (exit = 0 <-> errs = []).
Proof.
  unfold output_phase. destruct (negb dry && mk).
  - split; split; intros H; try reflexivity; try discriminate.
    + intros X. destruct prev; discriminate.
    + destruct prev; discriminate.
  - destruct (emit dry fc a svcs) as [effs errs]. destruct (prev ++ errs) eqn:E; split; split; intros H; try reflexivity; try discriminate; congruence.
Qed.

(* every load failure and every conversion failure of the process model is reported for its own path, and a file that loads and
   converts is not reported: the loads list has one entry per input file, in input order *)
Theorem one_load_result_per_file podman ex kf mn files :
  map fst (fst (process_files podman ex kf mn files)) = map fst files.
Proof. unfold process_files. cbn [fst]. rewrite map_map. cbn [fst]. reflexivity. Qed.

(* the units handed to the converters are exactly the loadable files, each once (a permutation sorted by type priority) *)
Lemma convert_all_paths podman ex kf mn l : forall tbl, map fst (convert_all podman ex kf mn l tbl) = map l_path l.
Proof.
  induction l as [|x r IH]; intros tbl; [reflexivity|]. cbn [convert_all].
  destruct (convert_one podman ex kf mn (l_unit x) (l_path x) (i_type (l_info x)) tbl) as [[[svc sp] tbl']|e [t|]| |]; cbn [map fst]; rewrite IH; reflexivity.
Qed.

(* a file that does not load (syntax error, unsupported type, ...) takes no part in the conversions: every other result is the same *)
Theorem unloadable_file_changes_nothing podman ex kf mn files1 files2 p t :
  (forall u i, load_one p t <> LOk u i) ->
  snd (process_files podman ex kf mn (files1 ++ (p, t) :: files2)) = snd (process_files podman ex kf mn (files1 ++ files2)).
Proof.
  intros H. unfold process_files. cbv zeta. cbn [snd].
  assert (E : flat_map (fun q : str * load_res => match snd q with LOk u i => [{| l_path := fst q; l_unit := u; l_info := i |}] | _ => [] end)
                (map (fun f : str * str => (fst f, load_one (fst f) (snd f))) (files1 ++ (p, t) :: files2)) =
              flat_map (fun q : str * load_res => match snd q with LOk u i => [{| l_path := fst q; l_unit := u; l_info := i |}] | _ => [] end)
                (map (fun f : str * str => (fst f, load_one (fst f) (snd f))) (files1 ++ files2))).
  { rewrite !map_app, !flat_map_app. cbn [map flat_map fst snd]. destruct (load_one p t) as [u i| | |] eqn:El; [exfalso; exact (H u i eq_refl)| | |]; reflexivity. }
  rewrite E. reflexivity.
Qed.
