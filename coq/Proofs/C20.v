From QV Require Import Model.Base Model.PortRange Spec.PortRe.
Open Scope N_scope.

Ltac dec :=
  repeat (match goal with
          | |- context[N.eqb ?c ?k] => destruct (N.eqb_spec c k)
          | H : context[N.eqb ?c ?k] |- _ => destruct (N.eqb_spec c k)
          end; try subst; try lia; cbn [andb orb Nat.eqb negb] in *).

Lemma proto20 r : port_proto 2 0 r = true <-> r = [112].
Proof.
  destruct r as [|c r]; cbn [port_proto]; [split; discriminate|].
  split.
  - dec; destruct r; congruence.
  - intros E. injection E as -> ->. reflexivity.
Qed.

Lemma proto02 r : port_proto 0 2 r = true <-> r = [112].
Proof.
  destruct r as [|c r]; cbn [port_proto]; [split; discriminate|].
  split.
  - dec; destruct r; congruence.
  - intros E. injection E as -> ->. reflexivity.
Qed.

Lemma proto10 r : port_proto 1 0 r = true <-> r = [99; 112].
Proof.
  destruct r as [|c r]; cbn [port_proto]; [split; discriminate|].
  split.
  - dec; try discriminate. rewrite proto20. intros ->. reflexivity.
  - intros E. injection E as -> ->. reflexivity.
Qed.

Lemma proto01 r : port_proto 0 1 r = true <-> r = [100; 112].
Proof.
  destruct r as [|c r]; cbn [port_proto]; [split; discriminate|].
  split.
  - dec; try discriminate. rewrite proto02. intros ->. reflexivity.
  - intros E. injection E as -> ->. reflexivity.
Qed.

Lemma proto00 r : port_proto 0 0 r = true <-> r = [116; 99; 112] \/ r = [117; 100; 112].
Proof.
  destruct r as [|c r]; cbn [port_proto]; [split; [discriminate|intros [E|E]; discriminate]|].
  split.
  - dec; try discriminate.
    + rewrite proto10. intros ->. left. reflexivity.
    + rewrite proto01. intros ->. right. reflexivity.
  - intros [E|E]; injection E as -> ->; reflexivity.
Qed.

Definition ProtoOk (r : str) : Prop := r = [] \/ r = cSLASH :: [116; 99; 112] \/ r = cSLASH :: [117; 100; 112].

Lemma ProtoOk_suffix r : ProtoOk r <-> ProtoSuffix r.
Proof. unfold ProtoOk, ProtoSuffix. reflexivity. Qed.

Lemma slash_not_digit : is_digit cSLASH = false.  Proof. reflexivity. Qed.
Lemma dash_not_digit : is_digit cDASH = false.  Proof. reflexivity. Qed.

Lemma second_spec cs : forall seen,
  port_second true seen cs = true <->
  exists b r2, cs = b ++ r2 /\ Forall (fun c => is_digit c = true) b /\ (seen = true \/ b <> []) /\ ProtoOk r2.
Proof.
  induction cs as [|c r IH]; intros seen; cbn [port_second].
  - split.
    + intros ->. exists [], []. repeat split; auto. left; reflexivity.
    + intros (b & r2 & E & _ & Hs & _). symmetry in E. apply app_eq_nil in E. destruct E as [-> ->].
      destruct Hs as [Hs|Hs]; congruence.
  - destruct (is_digit c) eqn:Hd.
    + rewrite IH. split.
      * intros (b & r2 & -> & Hb & _ & Hp). exists (c :: b), r2. repeat split; auto. right; discriminate.
      * intros (b & r2 & E & Hb & Hs & Hp). destruct b as [|c' b].
        -- cbn [app] in E. subst r2. destruct Hp as [Hp|[Hp|Hp]]; try discriminate;
           injection Hp as -> _; rewrite slash_not_digit in Hd; discriminate.
        -- injection E as -> ->. inversion Hb; subst. exists b, r2. repeat split; auto.
    + destruct (N.eqb_spec c cSLASH) as [->|Hne].
      * cbn [negb orb]. rewrite andb_true_iff, proto00. split.
        -- intros [Hs Hp]. exists [], (cSLASH :: r). repeat split; auto.
           destruct Hp as [->| ->]; [right; left|right; right]; reflexivity.
        -- intros (b & r2 & E & Hb & Hs & Hp). destruct b as [|c' b].
           ++ cbn [app] in E. subst r2. split.
              ** destruct Hs as [Hs|Hs]; congruence.
              ** destruct Hp as [Hp|[Hp|Hp]]; try discriminate; injection Hp as ->; auto.
           ++ injection E as <- _. inversion Hb; subst. congruence.
      * split; [discriminate|].
        intros (b & r2 & E & Hb & Hs & Hp). destruct b as [|c' b].
        -- cbn [app] in E. subst r2. destruct Hp as [Hp|[Hp|Hp]]; try discriminate; injection Hp as -> _; congruence.
        -- injection E as <- _. inversion Hb; subst. congruence.
Qed.

Definition Tail1 (r : str) : Prop :=
  (exists b r2, r = cDASH :: b ++ r2 /\ Forall (fun c => is_digit c = true) b /\ b <> [] /\ ProtoOk r2) \/ ProtoOk r.

Lemma first_spec cs : forall seen,
  port_first true seen cs = true <->
  exists a r1, cs = a ++ r1 /\ Forall (fun c => is_digit c = true) a /\ (seen = true \/ a <> []) /\ Tail1 r1.
Proof.
  induction cs as [|c r IH]; intros seen; cbn [port_first].
  - split.
    + intros ->. exists [], []. repeat split; auto. right. left. reflexivity.
    + intros (a & r1 & E & _ & Hs & _). symmetry in E. apply app_eq_nil in E. destruct E as [-> ->].
      destruct Hs as [Hs|Hs]; congruence.
  - destruct (is_digit c) eqn:Hd.
    + rewrite IH. split.
      * intros (a & r1 & -> & Ha & _ & Ht). exists (c :: a), r1. repeat split; auto. right; discriminate.
      * intros (a & r1 & E & Ha & Hs & Ht). destruct a as [|c' a].
        -- cbn [app] in E. subst r1. exfalso. destruct Ht as [(b & r2 & E & _)|[Hp|[Hp|Hp]]]; try discriminate.
           ++ injection E as -> _. rewrite dash_not_digit in Hd. discriminate.
           ++ injection Hp as -> _. rewrite slash_not_digit in Hd. discriminate.
           ++ injection Hp as -> _. rewrite slash_not_digit in Hd. discriminate.
        -- injection E as -> ->. inversion Ha; subst. exists a, r1. repeat split; auto.
    + destruct (N.eqb_spec c cDASH) as [->|Hnd].
      * cbn [negb orb]. rewrite andb_true_iff, second_spec. split.
        -- intros [Hs (b & r2 & -> & Hb & Hbs & Hp)]. exists [], (cDASH :: b ++ r2). repeat split; auto.
           left. exists b, r2. repeat split; auto. destruct Hbs as [Hbs|Hbs]; [discriminate|assumption].
        -- intros (a & r1 & E & Ha & Hs & Ht). destruct a as [|c' a].
           ++ cbn [app] in E. subst r1. split; [destruct Hs as [Hs|Hs]; congruence|].
              destruct Ht as [(b & r2 & E & Hb & Hbn & Hp)|[Hp|[Hp|Hp]]]; try discriminate.
              injection E as ->. exists b, r2. repeat split; auto.
           ++ injection E as <- _. inversion Ha; subst. congruence.
      * destruct (N.eqb_spec c cSLASH) as [->|Hns].
        -- cbn [negb orb]. rewrite andb_true_iff, proto00. split.
           ++ intros [Hs Hp]. exists [], (cSLASH :: r). repeat split; auto. right.
              destruct Hp as [->| ->]; [right; left|right; right]; reflexivity.
           ++ intros (a & r1 & E & Ha & Hs & Ht). destruct a as [|c' a].
              ** cbn [app] in E. subst r1. split; [destruct Hs as [Hs|Hs]; congruence|].
                 destruct Ht as [(b & r2 & E & _)|[Hp|[Hp|Hp]]]; try discriminate; injection Hp as ->; auto.
              ** injection E as <- _. inversion Ha; subst. congruence.
        -- split; [discriminate|].
           intros (a & r1 & E & Ha & Hs & Ht). destruct a as [|c' a].
           ++ cbn [app] in E. subst r1. destruct Ht as [(b & r2 & E & _)|[Hp|[Hp|Hp]]]; try discriminate;
              [injection E as -> _|injection Hp as -> _|injection Hp as -> _]; congruence.
           ++ injection E as <- _. inversion Ha; subst. congruence.
Qed.

Theorem port_exact s : is_port_range s = true <-> PortRe s.
Proof.
  unfold is_port_range, PortRe, Digits. destruct s as [|c0 s0] eqn:Es.
  - split; [discriminate|]. intros (a & r1 & p & E & [Hne _] & _).
    destruct a; [congruence|discriminate].
  - rewrite <- Es. rewrite first_spec. split.
    + intros (a & r1 & -> & Ha & Hs & Ht). destruct Hs as [Hs|Hs]; [discriminate|].
      destruct Ht as [(b & r2 & -> & Hb & Hbn & Hp)|Hp].
      * exists a, (cDASH :: b), r2.
        split; [reflexivity|]. split; [split; assumption|]. split.
        -- right. exists b. split; [reflexivity|split; assumption].
        -- apply ProtoOk_suffix. exact Hp.
      * exists a, [], r1.
        split; [reflexivity|]. split; [split; assumption|]. split; [left; reflexivity|].
        apply ProtoOk_suffix. exact Hp.
    + intros (a & r1 & p & E & [Hne Ha] & Hr & Hp). exists a, (r1 ++ p).
      split; [exact E|]. split; [exact Ha|]. split; [right; exact Hne|].
      destruct Hr as [->|(b & -> & [Hbn Hb])].
      * right. apply ProtoOk_suffix. exact Hp.
      * left. exists b, p. split; [reflexivity|]. split; [exact Hb|]. split; [exact Hbn|].
        apply ProtoOk_suffix. exact Hp.
Qed.

(* the pinned recogniser accepts strings outside the language *)
Lemma pinned_accepts_bad :
  is_port_range_pinned (s2l "-80") = true /\ is_port_range_pinned (s2l "/tcp") = true /\
  is_port_range_pinned (s2l "1-/udp") = true.
Proof. vm_compute. auto. Qed.

Lemma bad_not_in_language : ~ PortRe (s2l "-80") /\ ~ PortRe (s2l "/tcp") /\ ~ PortRe (s2l "1-/udp").
Proof.
  repeat split; intros H; apply port_exact in H; vm_compute in H; discriminate.
Qed.

Example port_examples :
  PortRe (s2l "80") /\ PortRe (s2l "8000-9000") /\ PortRe (s2l "53/udp") /\ PortRe (s2l "1-2/tcp") /\
  ~ PortRe (s2l "80/") /\ ~ PortRe (s2l "80/tc") /\ ~ PortRe (s2l "80/tcpp") /\ ~ PortRe [] /\ ~ PortRe (s2l "8a").
Proof.
  repeat split; try (apply port_exact; vm_compute; reflexivity);
  intros H; apply port_exact in H; vm_compute in H; discriminate.
Qed.
