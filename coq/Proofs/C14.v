From QV Require Import Model.Base Model.Discover Spec.Allowed Proofs.Util.
Open Scope N_scope.

Lemma all_digits_numeric s : all_digits s = true <-> numeric s.
Proof.
  unfold all_digits, numeric. rewrite forallb_forall, Forall_forall. split; intros H c Hc; specialize (H c Hc).
  - unfold is_digit in H. apply andb_true_iff in H. destruct H as [A B]. apply N.leb_le in A, B. lia.
  - unfold is_digit. apply andb_true_iff. split; apply N.leb_le; lia.
Qed.

Theorem root_never_users p : root_includes p = true -> ~ under_users p.
Proof.
  unfold root_includes, user_level_filter. intros H [rest ->]. change s_users with users in H.
  rewrite str_eqb_refl in H. discriminate.
Qed.

Theorem user_only_allowed uid p : rootless_includes true uid p = true -> allowed_for_user uid p.
Proof.
  unfold rootless_includes, allowed_for_user. destruct p as [|c rest]; [discriminate|].
  destruct (str_eqb_spec c users) as [->|]; [|discriminate]. change users with s_users.
  destruct rest as [|c1 rest']; [left; reflexivity|]. intros H. right. exists c1, rest'. split; [reflexivity|].
  apply orb_true_iff in H. destruct H as [H|H].
  - left. unfold non_numeric_filter in H. rewrite str_eqb_refl in H. apply negb_true_iff in H.
    intros Hn. apply all_digits_numeric in Hn. congruence.
  - right. apply str_eqb_eq in H. exact H.
Qed.

(* and nothing allowed is withheld *)
Theorem allowed_is_included uid p : allowed_for_user uid p -> rootless_includes true uid p = true.
Proof.
  unfold allowed_for_user, rootless_includes. intros [->|(c1 & rest & -> & H)]; change s_users with users.
  - rewrite str_eqb_refl. reflexivity.
  - rewrite str_eqb_refl. apply orb_true_iff. destruct H as [H| ->].
    + left. unfold non_numeric_filter. rewrite str_eqb_refl. apply negb_true_iff.
      destruct (all_digits c1) eqn:E; [|reflexivity]. apply all_digits_numeric in E. contradiction.
    + right. apply str_eqb_refl.
Qed.

Lemma pinned_refuted :
  rootless_includes false (s2l "2000") [users; s2l "1000"; s2l "sub"] = true /\
  rootless_includes false (s2l "2000") [users; s2l "shared"; s2l "7"] = false /\
  rootless_includes true (s2l "2000") [users; s2l "1000"; s2l "sub"] = false /\
  rootless_includes true (s2l "2000") [users; s2l "shared"; s2l "7"] = true.
Proof. vm_compute. repeat split; reflexivity. Qed.
