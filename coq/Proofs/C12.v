(* C12: links stay inside the output directory and reach the service file (lexical part). *)
From QV Require Import Model.Base Model.Path Model.Links Spec.CleanRef Proofs.Util Proofs.C17.
Open Scope N_scope.

(* ---- the normaliser on a relative path yields  ..* name*  ---- *)
Definition shape (l : list comp) : Prop := exists k ns, l = repeat CParent k ++ map CNormal ns.
Definition no_root (cs : list comp) : Prop := ~ In CRoot cs.

Lemma removelast_snoc {A} (l : list A) x : removelast (l ++ [x]) = l.
Proof.
  induction l as [|y l IH]; [reflexivity|]. cbn [app].
  destruct (l ++ [x]) as [|z t] eqn:E; [destruct l; discriminate|].
  change (removelast (y :: z :: t)) with (y :: removelast (z :: t)). rewrite IH. reflexivity.
Qed.

Lemma repeat_snoc {A} (x : A) k : repeat x k ++ [x] = x :: repeat x k.
Proof. induction k as [|k IH]; [reflexivity|]. cbn [repeat app]. rewrite IH. reflexivity. Qed.

Lemma pb_pop_not_root buf : buf <> [CRoot] -> pb_pop buf = removelast buf.
Proof.
  intros H. destruct buf as [|c l]; [reflexivity|]. destruct l as [|c2 l]; [|destruct c; reflexivity].
  destruct c; try reflexivity. congruence.
Qed.

Lemma removelast_repeat {A} (x : A) k : removelast (repeat x (S k)) = repeat x k.
Proof. cbn [repeat]. rewrite <- (repeat_snoc x k). apply removelast_snoc. Qed.

Lemma clean_step_shape buf c : shape buf -> c <> CRoot -> shape (clean_step buf c).
Proof.
  intros (k & ns & ->) Hc. destruct c as [| | |s]; [congruence| | |].
  - exists k, ns. reflexivity.
  - (* ".." *)
    destruct ns as [|n0 ns0] using rev_ind.
    + cbn [map]. rewrite app_nil_r. destruct k as [|k].
      * exists 1%nat, []. reflexivity.
      * cbn [clean_step repeat]. change (CParent :: repeat CParent k) with (repeat CParent (S k)).
        rewrite pb_pop_not_root by (cbn [repeat]; destruct k; discriminate).
        rewrite removelast_repeat. exists k, []. cbn [map]. rewrite app_nil_r. reflexivity.
    + rewrite map_app. cbn [map]. rewrite app_assoc.
      assert (E : clean_step ((repeat CParent k ++ map CNormal ns0) ++ [CNormal n0]) CParent
                  = pb_pop ((repeat CParent k ++ map CNormal ns0) ++ [CNormal n0])).
      { cbn [clean_step]. destruct ((repeat CParent k ++ map CNormal ns0) ++ [CNormal n0]) eqn:E0; [|reflexivity].
        destruct (repeat CParent k ++ map CNormal ns0); discriminate. }
      rewrite E. rewrite pb_pop_not_root.
      * rewrite removelast_snoc. exists k, ns0. reflexivity.
      * intros X. destruct (repeat CParent k ++ map CNormal ns0) as [|y l]; [discriminate|destruct l; discriminate].
  - cbn [clean_step pb_push]. exists k, (ns ++ [s]). rewrite map_app, app_assoc. reflexivity.
Qed.

Lemma clean_fold_shape cs : forall buf, shape buf -> no_root cs -> shape (fold_left clean_step cs buf).
Proof.
  induction cs as [|c cs IH]; intros buf Hb Hn; [exact Hb|].
  cbn [fold_left]. apply IH.
  - apply clean_step_shape; [exact Hb|]. intros ->. apply Hn. left. reflexivity.
  - intros H. apply Hn. right. exact H.
Qed.

Lemma relative_no_root p : is_absolute p = false -> no_root (components p).
Proof.
  intros H. unfold components, no_root. rewrite H. destruct (segs p) as [|s r]; [intros []|].
  intros [E|E].
  - destruct (str_eqb s dot); [discriminate|]. unfold classify in E. destruct (str_eqb s dotdot); discriminate.
  - apply in_map_iff in E. destruct E as [x [E _]]. unfold classify in E. destruct (str_eqb x dotdot); discriminate.
Qed.

(* the cleaned form of any relative path is  ..  k times, then plain names *)
Theorem cleaned_relative_shape p : is_absolute p = false -> shape (fold_left clean_step (components p) []).
Proof. intros H. apply clean_fold_shape; [exists 0%nat, []; reflexivity|apply relative_no_root; exact H]. Qed.

(* ---- a relative link of n plain components with target  ../ (n-1 times) file  resolves to  out/file ---- *)
Lemma walk_app pos a b : walk pos (a ++ b) = walk (walk pos a) b.
Proof.
  revert pos. induction a as [|s a IH]; intros pos; [reflexivity|]. cbn [app walk].
  destruct (str_eqb s sdot); [apply IH|]. destruct (str_eqb s sdotdot); apply IH.
Qed.

Lemma walk_up pos ns : walk (pos ++ ns) (repeat sdotdot (length ns)) = pos.
Proof.
  induction ns as [|n ns IH] using rev_ind; [cbn; rewrite app_nil_r; reflexivity|].
  rewrite app_length. cbn [length]. replace (length ns + 1)%nat with (S (length ns)) by lia. cbn [repeat walk].
  change (str_eqb sdotdot sdot) with false. change (str_eqb sdotdot sdotdot) with true. cbn iota.
  rewrite app_assoc, removelast_snoc. exact IH.
Qed.

Definition plain (s : str) : Prop := str_eqb s sdot = false /\ str_eqb s sdotdot = false.

Lemma walk_plain pos ns : Forall plain ns -> walk pos ns = pos ++ ns.
Proof.
  revert pos. induction ns as [|n ns IH]; intros pos H; [rewrite app_nil_r; reflexivity|].
  inversion H as [|? ? [H1 H2] Hr]; subst. cbn [walk]. rewrite H1, H2. rewrite IH by exact Hr. rewrite <- app_assoc. reflexivity.
Qed.

(* position of the link's directory, then the target's segments: the service file inside the output directory *)
Theorem link_resolves (outpos dirs : list str) (file : str) : plain file ->
  walk (outpos ++ dirs) (repeat sdotdot (length dirs) ++ [file]) = outpos ++ [file].
Proof.
  intros Hf. rewrite walk_app, walk_up. apply walk_plain. constructor; [exact Hf|constructor].
Qed.

(* the link itself, n plain components below the output directory, lies inside it *)
Theorem link_inside (outpos ns : list str) : Forall plain ns -> walk outpos ns = outpos ++ ns.
Proof. apply walk_plain. Qed.

(* a path accepted by stays_below normalises to plain names only: it neither climbs nor is absolute *)
Lemma stays_below_clean cs : forall ns, stays_below_c cs (length ns) = true ->
  exists ns', fold_left clean_step cs (map CNormal ns) = map CNormal ns'.
Proof.
  induction cs as [|c cs IH]; intros ns H; [exists ns; reflexivity|].
  destruct c as [| | |s]; cbn [stays_below_c] in H; [discriminate| | |].
  - cbn [fold_left clean_step]. apply IH. exact H.
  - destruct ns as [|n0 ns0] using rev_ind; [discriminate|].
    rewrite app_length in H. cbn [length] in H. replace (length ns0 + 1)%nat with (S (length ns0)) in H by lia.
    cbn [fold_left]. rewrite map_app. cbn [map].
    assert (E : clean_step (map CNormal ns0 ++ [CNormal n0]) CParent = map CNormal ns0).
    { cbn [clean_step]. destruct (map CNormal ns0 ++ [CNormal n0]) as [|c0 l0] eqn:E0; [destruct (map CNormal ns0); discriminate|].
      rewrite <- E0. rewrite pb_pop_not_root.
      - apply removelast_snoc.
      - intros X. destruct (map CNormal ns0) as [|y l1]; [discriminate|destruct l1; discriminate]. }
    rewrite E. apply IH. exact H.
  - cbn [fold_left clean_step pb_push]. replace (map CNormal ns ++ [CNormal s]) with (map CNormal (ns ++ [s])) by (rewrite map_app; reflexivity).
    apply IH. rewrite app_length. cbn [length]. replace (length ns + 1)%nat with (S (length ns)) by lia. exact H.
Qed.

Theorem accepted_alias_is_plain p : stays_below p = true ->
  exists ns, fold_left clean_step (components p) [] = map CNormal ns.
Proof. intros H. apply (stays_below_clean (components p) []). exact H. Qed.

(* pinned: absolute and climbing Alias paths were accepted as link locations *)
Lemma pinned_refuted :
  alias_ok false (s2l "/etc/victim") = true /\ is_absolute (cleaned (s2l "/etc/victim")) = true /\
  alias_ok false (s2l "a/../../x") = true /\ climbs (cleaned (s2l "a/../../x")) = true /\
  alias_ok true (s2l "/etc/victim") = false /\ alias_ok true (s2l "a/../../x") = false /\ alias_ok true (s2l "../../x") = false.
Proof. vm_compute. repeat split; reflexivity. Qed.
