From QV Require Import Model.Base Model.Quote Model.Unquote Model.Split Model.Unit Spec.Effective Proofs.Util.
Open Scope N_scope.

Definition rf (res : list str) (v : str) : list str := match v with [] => [] | _ => res ++ [v] end.

Lemma reset_fold_gen vs : forall acc,
  fold_left rf vs acc = if existsb is_empty vs then effective vs else acc ++ vs.
Proof.
  induction vs as [|v r IH]; intros acc; cbn [fold_left existsb effective].
  - rewrite app_nil_r. reflexivity.
  - rewrite IH. destruct (existsb is_empty r) eqn:Er.
    + rewrite orb_true_r. reflexivity.
    + rewrite orb_false_r. destruct v as [|c v']; cbn [rf is_empty].
      * reflexivity.
      * rewrite <- app_assoc. reflexivity.
Qed.

Lemma effective_no_empty vs : existsb is_empty vs = false -> effective vs = vs.
Proof.
  induction vs as [|v r IH]; intros H; [reflexivity|].
  cbn [existsb] in H. apply orb_false_iff in H. destruct H as [Hv Hr].
  cbn [effective]. rewrite Hr, Hv. reflexivity.
Qed.

Theorem list_rule u sec key : lookup_all_values u sec key = effective (values_raw u sec key).
Proof.
  unfold lookup_all_values, reset_fold. change (fun res v => match v with [] => [] | _ => res ++ [v] end) with rf.
  rewrite reset_fold_gen. destruct (existsb is_empty (values_raw u sec key)) eqn:E; [reflexivity|].
  rewrite effective_no_empty by exact E. reflexivity.
Qed.

(* characterisation of [effective] that does not mention the algorithm *)
Theorem effective_spec hist :
  (existsb is_empty hist = false /\ effective hist = hist) \/
  (exists pre, hist = pre ++ [] :: effective hist /\ existsb is_empty (effective hist) = false).
Proof.
  induction hist as [|v r IH].
  - left. split; reflexivity.
  - cbn [effective existsb]. destruct (existsb is_empty r) eqn:Er.
    + right. destruct IH as [[H _]|[pre [Hp Hn]]]; [congruence|].
      exists (v :: pre). split; [cbn [app]; f_equal; exact Hp|exact Hn].
    + destruct v as [|c v']; cbn [is_empty orb].
      * right. exists []. split; [reflexivity|exact Er].
      * left. split; reflexivity.
Qed.

Lemma last_opt_snoc {A} (l : list A) x : last_opt (l ++ [x]) = Some x.
Proof.
  induction l as [|y l IH]; [reflexivity|]. cbn [app last_opt].
  destruct (l ++ [x]) eqn:E; [destruct l; discriminate|]. exact IH.
Qed.

Lemma last_opt_cons {A} (x : A) l : l <> [] -> last_opt (x :: l) = last_opt l.
Proof. destruct l; [congruence|reflexivity]. Qed.

Lemma last_effective hist :
  match last_opt hist with Some [] => None | x => x end =
  match effective hist with [] => None | e => last_opt e end.
Proof.
  induction hist as [|v r IH]; [reflexivity|].
  cbn [effective]. destruct (existsb is_empty r) eqn:Er.
  - destruct r as [|v' r']; [cbn in Er; discriminate|]. rewrite last_opt_cons by discriminate. exact IH.
  - destruct r as [|v' r'].
    + destruct v; reflexivity.
    + rewrite last_opt_cons by discriminate. rewrite effective_no_empty in IH by exact Er.
      destruct v as [|c v0]; cbn [is_empty]; [exact IH|].
      rewrite IH. reflexivity.
Qed.

Theorem last_rule u sec key : lookup_last_value u sec key = last_assignment (values_raw u sec key).
Proof. unfold lookup_last_value, last_assignment. apply last_effective. Qed.

Lemma pinned_last_refuted :
  lookup_last_value_pinned [(s2l "Container", [(s2l "LogDriver", s2l "journald"); (s2l "LogDriver", [])])] (s2l "Container") (s2l "LogDriver") = Some []
  /\ effective [s2l "journald"; []] = [].
Proof. vm_compute. auto. Qed.

(* ---- name=value keys ---- *)
Lemma split_once_eq w : split_once cEQ w = split_eq w.
Proof. induction w as [|c r IH]; [reflexivity|]. cbn [split_once split_eq]. rewrite IH. reflexivity. Qed.

Lemma assoc_kv_insert m k v n :
  assoc_str n (kv_insert m k v) = if str_eqb n k then Some v else assoc_str n m.
Proof.
  induction m as [|[k' v'] r IH]; cbn [kv_insert assoc_str].
  - reflexivity.
  - destruct (str_eqb_spec k k') as [->|Hne].
    + cbn [assoc_str]. destruct (str_eqb n k'); reflexivity.
    + cbn [assoc_str]. rewrite IH. destruct (str_eqb_spec n k') as [->|Hn'].
      * destruct (str_eqb_spec k' k); [congruence|reflexivity].
      * reflexivity.
Qed.

Definition kvf (m : list (str * str)) (w : str) : list (str * str) :=
  match split_once cEQ w with Some (k, v) => kv_insert m k v | None => m end.

Lemma kv_fold words : forall m n,
  assoc_str n (fold_left kvf words m) =
  match last_value_for n words with Some v => Some v | None => assoc_str n m end.
Proof.
  induction words as [|w r IH]; intros m n; [reflexivity|].
  cbn [fold_left last_value_for]. rewrite IH.
  destruct (last_value_for n r) as [v|]; [reflexivity|].
  unfold kvf, value_for. rewrite split_once_eq. destruct (split_eq w) as [[k v]|]; [|reflexivity].
  rewrite assoc_kv_insert. destruct (str_eqb n k); reflexivity.
Qed.

Theorem kv_rule u sec key n :
  assoc_str n (lookup_all_key_val u sec key) =
  last_value_for n (flat_map split_word_all (effective (values_raw u sec key))).
Proof.
  unfold lookup_all_key_val, lookup_all_args. rewrite list_rule.
  change (fun m w => match split_once cEQ w with Some (k, v) => kv_insert m k v | None => m end) with kvf.
  rewrite kv_fold. destruct (last_value_for n _); reflexivity.
Qed.

(* ---- histories distributed over drop-ins: merging appends ---- *)
Lemma section_entries_add_same u sec k v :
  section_entries (add_entry u sec k v) sec = section_entries u sec ++ [(k, v)].
Proof.
  unfold section_entries. induction u as [|[n es] r IH]; cbn [add_entry assoc_str].
  - rewrite str_eqb_refl. reflexivity.
  - destruct (str_eqb_spec sec n) as [->|Hne]; cbn [assoc_str].
    + rewrite str_eqb_refl. reflexivity.
    + destruct (str_eqb_spec sec n); [congruence|]. exact IH.
Qed.

Lemma section_entries_add_other u sec sec' k v : sec <> sec' ->
  section_entries (add_entry u sec' k v) sec = section_entries u sec.
Proof.
  intros Hne. unfold section_entries. induction u as [|[n es] r IH]; cbn [add_entry assoc_str].
  - destruct (str_eqb_spec sec sec'); [congruence|]. reflexivity.
  - destruct (str_eqb_spec sec' n) as [->|Hn]; cbn [assoc_str].
    + destruct (str_eqb_spec sec n); [congruence|]. reflexivity.
    + destruct (str_eqb_spec sec n); [reflexivity|]. exact IH.
Qed.

Lemma section_entries_add_entries_same es : forall u sec,
  section_entries (add_entries u sec es) sec = section_entries u sec ++ es.
Proof.
  unfold add_entries. induction es as [|[k v] r IH]; intros u sec; cbn [fold_left fst snd].
  - rewrite app_nil_r. reflexivity.
  - rewrite IH, section_entries_add_same, <- app_assoc. reflexivity.
Qed.

Lemma section_entries_add_entries_other es : forall u sec sec', sec <> sec' ->
  section_entries (add_entries u sec' es) sec = section_entries u sec.
Proof.
  unfold add_entries. induction es as [|[k v] r IH]; intros u sec sec' Hne; cbn [fold_left fst snd]; [reflexivity|].
  rewrite IH by exact Hne. apply section_entries_add_other. exact Hne.
Qed.

Lemma section_entries_cons_same n es (r : unit) : section_entries ((n, es) :: r) n = es.
Proof. unfold section_entries. cbn [assoc_str]. rewrite str_eqb_refl. reflexivity. Qed.

Lemma section_entries_cons_other n es (r : unit) sec : sec <> n ->
  section_entries ((n, es) :: r) sec = section_entries r sec.
Proof. intros H. unfold section_entries. cbn [assoc_str]. destruct (str_eqb_spec sec n); [congruence|reflexivity]. Qed.

Lemma section_entries_notin (r : unit) n : ~ In n (map fst r) -> section_entries r n = [].
Proof.
  intros Hnin. induction r as [|[n' es'] r IH]; [reflexivity|].
  rewrite section_entries_cons_other.
  - apply IH. intros H. apply Hnin. right. exact H.
  - intros ->. apply Hnin. left. reflexivity.
Qed.

Lemma merge_entries d : forall u sec, NoDup (map fst d) ->
  section_entries (merge_from u d) sec = section_entries u sec ++ section_entries d sec.
Proof.
  unfold merge_from. induction d as [|[n es] r IH]; intros u sec Hnd; cbn [fold_left fst snd].
  - change (section_entries [] sec) with (@nil entry). rewrite app_nil_r. reflexivity.
  - inversion Hnd as [|? ? Hnin Hnd']; subst. rewrite IH by exact Hnd'.
    destruct (str_eqb_spec sec n) as [->|Hne].
    + rewrite section_entries_add_entries_same, section_entries_cons_same.
      rewrite (section_entries_notin r n Hnin), app_nil_r. reflexivity.
    + rewrite section_entries_add_entries_other by exact Hne.
      rewrite section_entries_cons_other by exact Hne. reflexivity.
Qed.

Theorem dropin_history u d sec key : NoDup (map fst d) ->
  values_raw (merge_from u d) sec key = values_raw u sec key ++ values_raw d sec key.
Proof.
  intros Hnd. unfold values_raw. rewrite merge_entries by exact Hnd.
  rewrite filter_app, map_app. reflexivity.
Qed.

Example effective_example :
  effective [s2l "a"; []; s2l "b"; s2l "c"] = [s2l "b"; s2l "c"] /\ effective [s2l "a"; []] = [] /\
  effective [[]; s2l "x"] = [s2l "x"] /\ effective [s2l "p"; s2l "q"] = [s2l "p"; s2l "q"].
Proof. vm_compute. auto. Qed.
