(* C07: the lists the pass-through theorems are stated with -- which (section, key) pairs the converter of each unit type may
   append generator entries to, which [Service] settings the generator manages (sets when the user did not), and which sections
   are the unit's own.  Extracted, so that the store-site inventory of tools/props/C07.py compares them with the source. *)
From QV Require Import Model.Base Generated.Tables Model.Unit Model.Names Model.Convert.
Open Scope N_scope.

(* the (section, key) pairs every converter may append to while resolving references ... *)
Definition ABASE : list (str * str) :=
  [(SEC_U, s2l "Requires"); (SEC_U, s2l "After"); (SEC_U, s2l "BindsTo"); (SEC_U, s2l "RequiresMountsFor"); (SEC_U, s2l "SourcePath")].
(* ... and per unit type *)
Definition ACT : list (str * str) :=
  ABASE ++ [(SEC_S, s2l "Environment"); (SEC_S, s2l "ExecStop"); (SEC_S, s2l "ExecStopPost"); (SEC_S, s2l "ExecStart"); (SEC_S, s2l "Delegate")].
Definition AKUBE : list (str * str) :=
  ABASE ++ [(SEC_S, s2l "Environment"); (SEC_S, s2l "ExecStart"); (SEC_S, s2l "ExecStopPost"); (SEC_S, s2l "Type"); (SEC_S, s2l "NotifyAccess");
            (SEC_S, s2l "WorkingDirectory")].
Definition APOD : list (str * str) :=
  ABASE ++ [(SEC_U, s2l "Wants"); (SEC_U, s2l "Before"); (SEC_S, s2l "ExecStart"); (SEC_S, s2l "ExecStop"); (SEC_S, s2l "ExecStopPost");
            (SEC_S, s2l "ExecStartPre"); (SEC_S, s2l "Environment"); (SEC_S, s2l "Type"); (SEC_S, s2l "Restart"); (SEC_S, s2l "PIDFile")].
Definition AONE : list (str * str) := ABASE ++ [(SEC_S, s2l "ExecStart")].                       (* image, network, volume *)
Definition ABUILD : list (str * str) := ABASE ++ [(SEC_S, s2l "ExecStart"); (SEC_S, s2l "WorkingDirectory")].


Definition A_of (t : qtype) : list (str * str) :=
  match t with TContainer => ACT | TKube => AKUBE | TPod => APOD | TBuild => ABUILD | TImage | TNetwork | TVolume => AONE end.


Definition MANAGED : list str := [s2l "KillMode"; s2l "SyslogIdentifier"; s2l "Type"; s2l "NotifyAccess"; s2l "RemainAfterExit"].


Definition hidden (t : qtype) : list str := [type_section t; type_xsection t; SEC_Q; c_X_QUADLET_SECTION].

