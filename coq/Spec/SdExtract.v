(* Independent reference model of systemd's extract_first_word() (v252, src/basic/extract-word.c) and
   cunescape_one() (src/basic/escape.c), as a one-character-per-step machine, for the three flag sets the
   properties name.  EXTRACT_UNQUOTE is always on; separators are WHITESPACE = " \t\n\r".

   Deviations from the C code, both documented in DESIGN.md §5:
   - 8-bit escapes (\x80..\xff, octal >= \200) denote a raw byte in C; here they denote the code point of the
     same value (a Rust String cannot hold a lone byte; C04 calls this "the characters they denote").
   - \uXXXX naming a surrogate half is rejected here (C emits an ill-formed UTF-8 sequence).
   Validated against the real libsystemd-shared extract_first_word by tools/sdref.py. *)
From QV Require Import Model.Base.
Open Scope N_scope.

Record flags := { f_cunescape : bool; f_relax : bool; f_retain_escape : bool }.
Definition fl_exec : flags := {| f_cunescape := true;  f_relax := false; f_retain_escape := false |}.
Definition fl_args : flags := {| f_cunescape := true;  f_relax := true;  f_retain_escape := false |}.
Definition fl_strv : flags := {| f_cunescape := false; f_relax := false; f_retain_escape := true |}.

Inductive hexkind := Kx | Ku | KU.

Inductive st :=
| Skip                                             (* before the word: skipping separators *)
| Plain                                            (* word started, outside quotes *)
| InQ (q : N)                                      (* inside quotes opened by q *)
| Esc (q : option N)                               (* just saw a backslash *)
| Hex (q : option N) (k : hexkind) (left : nat) (acc : N)
| Oct (q : option N) (left : nat) (acc : N).

Definition is_sep (c : N) : bool := (c =? 32) || (c =? 9) || (c =? 10) || (c =? 13).
Definition is_quote (c : N) : bool := (c =? cDQ) || (c =? cSQ).

Definition back (q : option N) : st := match q with None => Plain | Some q => InQ q end.

Inductive out := SErr | More (s : st) (acc : str) | Done (w : str).

Definition simple_esc (c : N) : option N :=
  if c =? 97 then Some 7 else if c =? 98 then Some 8 else if c =? 102 then Some 12 else
  if c =? 110 then Some 10 else if c =? 114 then Some 13 else if c =? 116 then Some 9 else
  if c =? 118 then Some 11 else if c =? 92 then Some 92 else if c =? 34 then Some 34 else
  if c =? 39 then Some 39 else if c =? 115 then Some 32 else None.

(* unichar_is_valid() of systemd *)
Definition unichar_is_valid (u : N) : bool :=
  (u <? 1114112) && negb ((55296 <=? u) && (u <=? 57343)) && negb ((64976 <=? u) && (u <=? 65007))
  && negb ((u mod 65536 =? 65534) || (u mod 65536 =? 65535)).

Definition hex_done (k : hexkind) (v : N) : option N :=
  if v =? 0 then None else
  match k with
  | Kx => Some v
  | Ku => if (55296 <=? v) && (v <=? 57343) then None else Some v
  | KU => if unichar_is_valid v then Some v else None
  end.

Definition plain_step (fl : flags) (acc : str) (c : N) : out :=
  if is_quote c then More (InQ c) acc else
  if (c =? cBS) && negb (f_retain_escape fl) then More (Esc None) acc else
  if is_sep c then Done acc else More Plain (acc ++ [c]).

Definition step (fl : flags) (s : st) (acc : str) (c : N) : out :=
  match s with
  | Skip => if is_sep c then More Skip acc else plain_step fl acc c
  | Plain => plain_step fl acc c
  | InQ q => if c =? q then More Plain acc else
             if (c =? cBS) && negb (f_retain_escape fl) then More (Esc (Some q)) acc
             else More (InQ q) (acc ++ [c])
  | Esc q =>
      if negb (f_cunescape fl) then More (back q) (acc ++ [c]) else
      match simple_esc c with
      | Some r => More (back q) (acc ++ [r])
      | None =>
          if c =? 120 then More (Hex q Kx 2 0) acc else
          if c =? 117 then More (Hex q Ku 4 0) acc else
          if c =? 85 then More (Hex q KU 8 0) acc else
          if is_octdigit c then More (Oct q 2 (c - 48)) acc else SErr
      end
  | Hex q k n a =>
      match hexval c with
      | None => SErr
      | Some d =>
          let a' := a * 16 + d in
          match n with
          | 1%nat => match hex_done k a' with Some r => More (back q) (acc ++ [r]) | None => SErr end
          | S n' => More (Hex q k n' a') acc
          | O => SErr
          end
      end
  | Oct q n a =>
      if is_octdigit c then
        let a' := a * 8 + (c - 48) in
        match n with
        | 1%nat => if (a' =? 0) || (255 <? a') then SErr else More (back q) (acc ++ [a'])
        | S n' => More (Oct q n' a') acc
        | O => SErr
        end
      else SErr
  end.

(* end of input *)
Definition finish (fl : flags) (s : st) (acc : str) : option (option str) :=
  match s with
  | Skip => Some None
  | Plain => Some (Some acc)
  | InQ _ => if f_relax fl then Some (Some acc) else None
  | Esc _ => if f_relax fl then Some (Some acc) else None
  | Hex _ _ _ _ | Oct _ _ _ => None
  end.

(* one word: None = error; Some None = no more words; Some (Some (w, rest)) *)
Fixpoint word (fl : flags) (s : st) (acc : str) (cs : str) : option (option (str * str)) :=
  match cs with
  | [] => match finish fl s acc with
          | None => None | Some None => Some None | Some (Some w) => Some (Some (w, []))
          end
  | c :: r => match step fl s acc c with
              | SErr => None
              | Done w => Some (Some (w, r))
              | More s' acc' => word fl s' acc' r
              end
  end.

Fixpoint split (fl : flags) (fuel : nat) (cs : str) : option (list str) :=
  match fuel with
  | O => None
  | S f =>
      match word fl Skip [] cs with
      | None => None
      | Some None => Some []
      | Some (Some (w, r)) => match split fl f r with Some ws => Some (w :: ws) | None => None end
      end
  end.

Definition sd_split (fl : flags) (cs : str) : option (list str) := split fl (S (length cs)) cs.
