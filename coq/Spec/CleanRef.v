(* Lexical meaning of an absolute path: walking its segments from the root of a file system without symlinks,
   where ".." at the root stays at the root.  Independent of the PathBuf push/pop implementation. *)
From QV Require Import Model.Base.
Open Scope N_scope.

Definition sdot : str := [cDOT].
Definition sdotdot : str := [cDOT; cDOT].

(* position = directory names from the root *)
Fixpoint walk (pos : list str) (ss : list str) : list str :=
  match ss with
  | [] => pos
  | s :: r => if str_eqb s sdot then walk pos r
              else if str_eqb s sdotdot then walk (removelast pos) r
              else walk (pos ++ [s]) r
  end.

(* the canonical spelling of the position reached *)
Definition resolve_abs (ss : list str) : str := cSLASH :: join [cSLASH] (walk [] ss).

Definition plain_name (s : str) : Prop := s <> [] /\ s <> sdot /\ s <> sdotdot /\ ~ In cSLASH s.
