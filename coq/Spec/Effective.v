(* What "the effective value of a repeatedly assigned key" means (podman-systemd.unit(5), systemd.syntax(7)):
   the history of a key is the list of its raw values in assignment order (main file, repeated sections,
   then drop-ins in merge order). *)
From QV Require Import Model.Base.
Open Scope N_scope.

Definition is_empty (v : str) : bool := match v with [] => true | _ => false end.

(* list keys: everything after the last empty assignment *)
Fixpoint effective (hist : list str) : list str :=
  match hist with
  | [] => []
  | v :: r => if existsb is_empty r then effective r else if is_empty v then r else v :: r
  end.

(* single-valued keys: the last assignment; an empty last assignment leaves the key unset *)
Definition last_assignment (hist : list str) : option str :=
  match effective hist with
  | [] => None
  | e => last_opt e
  end.

(* name=value keys: for a name, the value of the last word NAME=... among the effective words *)
Fixpoint split_eq (w : str) : option (str * str) :=
  match w with
  | [] => None
  | c :: r => if c =? cEQ then Some ([], r) else
              match split_eq r with Some (a, b) => Some (c :: a, b) | None => None end
  end.

Definition value_for (name : str) (w : str) : option str :=
  match split_eq w with Some (k, v) => if str_eqb name k then Some v else None | None => None end.

Fixpoint last_value_for (name : str) (words : list str) : option str :=
  match words with
  | [] => None
  | w :: r => match last_value_for name r with Some v => Some v | None => value_for name w end
  end.
