(* The spellings of a unit file (systemd.syntax(7), repo README grammar), written as relations between a file
   model and text, independently of the parser:
     - a file model is the list of section instances in file order, each with its (key, raw value) entries;
     - comment lines (# or ;) and blank lines may appear anywhere between lines, lines may be indented;
     - blanks may surround '='; blanks may follow the value; a section header may be followed by blanks;
     - a single blank inside a value may be spelled as a backslash at the end of the line (optionally followed by
       spaces), then any number of comment lines, then the rest of the value on the next line;
     - repeated section headers extend the same section.
   Every line is newline-terminated here; a missing final newline is covered by a separate theorem. *)
From QV Require Import Model.Base.
Open Scope N_scope.

Definition fmodel := list (str * list (str * str)).

(* what the file means: repeated headers extend the same section, first-occurrence order *)
Fixpoint ms_insert (u : fmodel) (name : str) (es : list (str * str)) : fmodel :=
  match u with
  | [] => [(name, es)]
  | (n, es0) :: r => if str_eqb name n then (n, es0 ++ es) :: r else (n, es0) :: ms_insert r name es
  end.
Definition merge_sections (m : fmodel) : fmodel := fold_left (fun u s => ms_insert u (fst s) (snd s)) m [].

(* character classes of the documented syntax *)
Definition is_blank_c (c : N) : bool := (c =? 32) || (c =? 9).
Definition is_line_ws (c : N) : bool := (c =? 32) || (c =? 9) || (c =? 12) || (c =? 13).   (* SP TAB FF CR *)
Definition is_comment_c (c : N) : bool := (c =? 35) || (c =? 59).
Definition is_doc_key_char (c : N) : bool :=
  ((48 <=? c) && (c <=? 57)) || ((65 <=? c) && (c <=? 90)) || ((97 <=? c) && (c <=? 122)) || (c =? 45).

Definition Blanks (b : str) : Prop := Forall (fun c => is_blank_c c = true) b.
Definition LineWs (b : str) : Prop := Forall (fun c => is_line_ws c = true) b.
Definition Spaces (b : str) : Prop := Forall (fun c => c = 32) b.

Definition key_ok (k : str) : Prop := k <> [] /\ Forall (fun c => is_doc_key_char c = true) k.
Definition name_ok (n : str) : Prop := n <> [] /\ ~ In cRB n /\ ~ In cNL n.

(* a junk line: blank or comment, newline-terminated *)
Inductive JunkLine : str -> Prop :=
| JBlank b : LineWs b -> JunkLine (b ++ [cNL])
| JComment b c body : LineWs b -> is_comment_c c = true -> ~ In cNL body -> JunkLine (b ++ c :: body ++ [cNL]).

(* comment lines between the two halves of a continued value: not indented *)
Inductive CommentLines : str -> Prop :=
| CLNil : CommentLines []
| CLCons c body t : is_comment_c c = true -> ~ In cNL body -> CommentLines t -> CommentLines (c :: body ++ cNL :: t).

(* the character that follows a continuation must not change the meaning of the line *)
Definition cont_safe (c : N) : bool := negb (is_comment_c c) && negb (c =? cLB) && negb (c =? cNL).

(* VSpell pending value text : text spells the raw value; pending = the previous character was an unpaired backslash *)
Inductive VSpell : bool -> str -> str -> Prop :=
| VSNil : VSpell false [] []
| VSLit c v t : c <> cBS -> c <> cNL -> VSpell false v t -> VSpell false (c :: v) (c :: t)
| VSBs v t : VSpell true v t -> VSpell false (cBS :: v) (cBS :: t)
| VSEsc c v t : c <> cSP -> c <> cNL -> VSpell false v t -> VSpell true (c :: v) (c :: t)
| VSBreak sp cl c v t : Spaces sp -> CommentLines cl -> cont_safe c = true -> VSpell false (c :: v) t ->
    VSpell false (cSP :: c :: v) (cBS :: sp ++ cNL :: cl ++ t).

(* an entry line without its newline; ELTrail: the value's last line ends in a backslash and the next line is empty (or blank):
   "joins the next line with a single space", and the white space at the end of the value is dropped *)
Inductive EntryLine (k v : str) : str -> Prop :=
| EL ind b1 b2 vt tb : LineWs ind -> Blanks b1 -> Blanks b2 -> VSpell false v vt -> Blanks tb ->
    EntryLine k v (ind ++ k ++ b1 ++ cEQ :: b2 ++ vt ++ tb)
| ELTrail ind b1 b2 vt tb sp cl tb2 : LineWs ind -> Blanks b1 -> Blanks b2 -> VSpell false v vt -> Blanks tb ->
    Spaces sp -> CommentLines cl -> Blanks tb2 ->
    EntryLine k v (ind ++ k ++ b1 ++ cEQ :: b2 ++ vt ++ tb ++ cBS :: sp ++ cNL :: cl ++ tb2).

Section WithValueOk.
  (* which raw values a file can carry: decided by the code's load-time validation, a parameter here;
     likewise the key class (the documented one is [key_ok]) *)
  Variable val_ok : str -> Prop.
  Variable key_okp : str -> Prop.

  Inductive BodyLines : list (str * str) -> str -> Prop :=
  | BLNil : BodyLines [] []
  | BLJunk es j t : JunkLine j -> BodyLines es t -> BodyLines es (j ++ t)
  | BLEntry k v es line t : key_okp k -> val_ok v -> EntryLine k v line -> BodyLines es t ->
      BodyLines ((k, v) :: es) (line ++ cNL :: t).

  Inductive Sections : fmodel -> str -> Prop :=
  | SNil : Sections [] []
  | SCons name es m ind hb body t : LineWs ind -> name_ok name -> LineWs hb -> BodyLines es body -> Sections m t ->
      Sections ((name, es) :: m) (ind ++ cLB :: name ++ cRB :: hb ++ cNL :: body ++ t).

  Inductive Renders : fmodel -> str -> Prop :=
  | RSections m t : Sections m t -> Renders m t
  | RJunk m j t : JunkLine j -> Renders m t -> Renders m (j ++ t).
End WithValueOk.
