(* Which directories of the administrator's tree a generator may use (podman-systemd.unit(5), "Rootless/rootful search path"). *)
From QV Require Import Model.Base.
Open Scope N_scope.

Definition s_users : str := s2l "users".
Definition numeric (s : str) : Prop := Forall (fun c => 48 <= c <= 57) s.

(* p: components below /etc/containers/systemd *)
Definition under_users (p : list str) : Prop := exists rest, p = s_users :: rest.

(* a user generator may use users/ itself, users/<non-numeric first component>/..., users/<own uid>/... *)
Definition allowed_for_user (uid : str) (p : list str) : Prop :=
  p = [s_users] \/ exists c1 rest, p = s_users :: c1 :: rest /\ (~ numeric c1 \/ c1 = uid).
