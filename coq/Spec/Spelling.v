(* Documented quoting of a single value (systemd.syntax(7) "Quoting"; repo README grammar):
   which raw texts spell which string.  Written independently of the code's parser.

   A value is a sequence of segments:
     - literal whitespace (space, tab, newline), which is part of the value;
     - a quoted run "..." or '...', allowed only at the beginning of the value or directly after literal
       whitespace: the delimiters are dropped, everything inside is verbatim (including the other kind of
       quote), C-style escapes are decoded;
     - an unquoted run: characters verbatim or as C-style escapes; it does not start with a literal quote
       character, and a literal quote character inside it does not directly follow (escaped) whitespace. *)
From QV Require Import Model.Base.
Open Scope N_scope.

Definition is_ws3 (c : N) : bool := (c =? 32) || (c =? 9) || (c =? 10).
Definition is_q (c : N) : bool := (c =? cDQ) || (c =? cSQ).

(* letter after the backslash, character denoted *)
Definition esc_table : list (N * N) :=
  [(97, 7); (98, 8); (102, 12); (110, 10); (114, 13); (116, 9); (118, 11); (92, 92); (34, 34); (39, 39); (115, 32)].

Definition hexfold (ds : list N) : N := fold_left (fun a d => a * 16 + d) ds 0.
Definition octfold (ds : list N) : N := fold_left (fun a d => a * 8 + d) ds 0.
Definition HexDigits (hs ds : list N) : Prop := Forall2 (fun h d => hexval h = Some d) hs ds.
Definition OctDigits (hs ds : list N) : Prop := Forall2 (fun h d => is_octdigit h = true /\ d = h - 48) hs ds.

(* Esc v sp: the escape sequence sp denotes the character v *)
Inductive Esc : N -> str -> Prop :=
| EscSimple l r : In (l, r) esc_table -> Esc r [cBS; l]
| EscX hs ds : length hs = 2%nat -> HexDigits hs ds -> hexfold ds <> 0 -> Esc (hexfold ds) (cBS :: 120 :: hs)
| Escu hs ds : length hs = 4%nat -> HexDigits hs ds -> hexfold ds <> 0 -> is_scalar (hexfold ds) = true ->
               Esc (hexfold ds) (cBS :: 117 :: hs)
| EscU hs ds : length hs = 8%nat -> HexDigits hs ds -> hexfold ds <> 0 -> is_scalar (hexfold ds) = true ->
               Esc (hexfold ds) (cBS :: 85 :: hs)
| EscOct hs ds : length hs = 3%nat -> OctDigits hs ds -> octfold ds <> 0 -> Esc (octfold ds) (cBS :: hs).

Inductive ctx := CDQ | CSQ | CBare.

(* may character c (never NUL) stand for itself?  [pw]: the previous decoded character of this run is whitespace (or none) *)
Definition lit_ok (k : ctx) (pw : bool) (c : N) : bool :=
  match k with
  | CDQ => negb (c =? 0) && negb (c =? cDQ) && negb (c =? cBS)
  | CSQ => negb (c =? 0) && negb (c =? cSQ) && negb (c =? cBS)
  | CBare => negb (c =? 0) && negb (c =? cBS) && negb (is_ws3 c) && (negb (is_q c) || negb pw)
  end.

(* Body k pw decoded raw *)
Inductive Body (k : ctx) : bool -> str -> str -> Prop :=
| BNil pw : Body k pw [] []
| BLit pw c d r : lit_ok k pw c = true -> Body k (is_ws3 c) d r -> Body k pw (c :: d) (c :: r)
| BEsc pw c sp d r : Esc c sp -> Body k (is_ws3 c) d r -> Body k pw (c :: d) (sp ++ r).

(* Spells_at b decoded raw ; b: a quoted run may start here *)
Inductive Spells_at : bool -> str -> str -> Prop :=
| VNil b : Spells_at b [] []
| VWs b c d r : is_ws3 c = true -> Spells_at true d r -> Spells_at b (c :: d) (c :: r)
| VDQ body rb d r : Body CDQ true body rb -> Spells_at false d r ->
    Spells_at true (body ++ d) (cDQ :: rb ++ cDQ :: r)
| VSQ body rb d r : Body CSQ true body rb -> Spells_at false d r ->
    Spells_at true (body ++ d) (cSQ :: rb ++ cSQ :: r)
| VBare b body rb d r : body <> [] -> Body CBare true body rb -> Spells_at false d r ->
    Spells_at b (body ++ d) (rb ++ r).

Definition Spells (s raw : str) : Prop := Spells_at true s raw.

(* a canonical spelling of any string: wholly double-quoted; only the double quote, the backslash and newline are escaped *)
Definition dq_char (c : N) : str :=
  if c =? cDQ then [cBS; cDQ] else if c =? cBS then [cBS; cBS] else if c =? cNL then [cBS; 110] else [c].
Definition dq (s : str) : str := cDQ :: flat_map dq_char s ++ [cDQ].
(* ... and wholly single-quoted *)
Definition sq_char (c : N) : str :=
  if c =? cSQ then [cBS; cSQ] else if c =? cBS then [cBS; cBS] else if c =? cNL then [cBS; 110] else [c].
Definition sq (s : str) : str := cSQ :: flat_map sq_char s ++ [cSQ].
