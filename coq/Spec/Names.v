(* The names a Quadlet unit actually gets (podman-systemd.unit(5)): service unit name and podman object name. *)
From QV Require Import Model.Base.
Open Scope N_scope.

(* service name: explicit ServiceName, else <file stem><suffix>;  service file = that ++ ".service" *)
Definition spec_service_name (explicit : option str) (stem suffix : str) : str :=
  match explicit with Some n => n | None => stem ++ suffix end.

(* volumes and networks: explicit VolumeName / NetworkName (when non-empty), else systemd-<file stem> *)
Definition spec_object_name (explicit : option str) (stem : str) : str :=
  match explicit with Some (c :: s) => c :: s | _ => s2l "systemd-" ++ stem end.

(* .image units: ImageTag (when non-empty) else the Image value *)
Definition spec_image_name (tag : option str) (image : str) : str :=
  match tag with Some (c :: s) => c :: s | _ => image end.
