(* Declarative meaning of  ^\d+(-\d+)?(/tcp|/udp)?$  over code-point strings. *)
From QV Require Import Model.Base.
Open Scope N_scope.

Definition Digits (d : str) : Prop := d <> [] /\ Forall (fun c => is_digit c = true) d.

Definition ProtoSuffix (p : str) : Prop := p = [] \/ p = s2l "/tcp" \/ p = s2l "/udp".

Definition PortRe (s : str) : Prop :=
  exists a r1 p, s = a ++ r1 ++ p /\ Digits a /\
    (r1 = [] \/ exists b, r1 = cDASH :: b /\ Digits b) /\ ProtoSuffix p.
